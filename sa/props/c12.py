"""C12 -- length prefixed vectors stay within bounds through any edit sequence."""
from __future__ import annotations

import ast

from ..model import ClassInfo
from ..values import ClassV, ObjV, show

META = {
    'explanation': (
        'All vector state lives in ArrayBase (_items, _items_size). The invariant "_items_size == sum of item sizes, '
        'within [min,max]" is inductive over the sequence interface iff (R1) every statement that mutates _items is '
        'dominated by a _update_items_size call describing exactly that edit and nothing mutates before the call, '
        '(R2) _update_items_size compares the prospective size with both bounds and raises before its single write, '
        '(R3) nothing outside ArrayBase writes the two fields, and overridden MutableSequence methods obey R1, '
        '(R4) index arguments that may be slices are not handed to the per-item size function, (R5) every compose of '
        'a container derives the prefix from the body it just composed and max_byte_num fits the prefix width. '
        'Decided on the AST of common/base.py and, for R3/R5, over the whole package.'
        ' R6: extend/clear/reverse are overridden by atomic versions. R7: per vector class, what get_item_size counts equals what the composer writes per item (table of compatible pairs; separator joined text vectors reviewed). R8: bounds equal the specification\'s.'),
    'assumptions': ['collections.abc.MutableSequence mixin methods (extend, pop, remove, +=, reverse, clear) are '
                    'implemented in terms of the abstract methods insert/__getitem__/__setitem__/__delitem__/__len__'],
    'trusted_base': ['python ast', 'sa.model', 'sa.interp constant folding of get_param()'],
    'exhaustive': True,
}

META['explanation'] += ' ' + 'R9 covers None items and positions a list refuses (TypeError, nothing booked). R11: enum coded vectors book the width they write (shared with C10.R3).'

META['explanation'] += ' ' + 'R5 follows the helper methods compose calls. R7 also decides get_item_size per kind of item it distinguishes, against the composer layout of that kind. R12: state a vector class keeps next to its item list is rewritten by every method that changes the list. R13: no vector class redefines a method of the sequence interface.'

MUTATING_CALLS = {'append', 'insert', 'extend', 'pop', 'remove', 'clear', 'sort', 'reverse', '__setitem__', '__delitem__'}
SEQ_METHODS = {'__delitem__', '__setitem__', 'insert', 'append', 'extend', 'pop', 'remove', 'clear', 'reverse',
               '__iadd__', 'sort'}


def self_items(node, names=('_items',)):
    return isinstance(node, ast.Attribute) and node.attr in names and isinstance(node.value, ast.Name) and node.value.id == 'self'


def mutation_of_items(st):
    """Does statement ``st`` mutate self._items?  returns description or None."""
    if isinstance(st, ast.Delete):
        for t in st.targets:
            if isinstance(t, ast.Subscript) and self_items(t.value):
                sl = t.slice
                if isinstance(sl, ast.Slice) and sl.lower is None and sl.upper is None and sl.step is None:
                    return 'del-all'
                return 'del'
    if isinstance(st, ast.Assign):
        for t in st.targets:
            if isinstance(t, ast.Subscript) and self_items(t.value):
                return 'setitem'
            if self_items(t):
                return 'rebind'
    if isinstance(st, ast.AugAssign) and (self_items(st.target) or isinstance(st.target, ast.Subscript) and self_items(st.target.value)):
        return 'augassign'
    if isinstance(st, ast.Expr) and isinstance(st.value, ast.Call) and isinstance(st.value.func, ast.Attribute) and \
            st.value.func.attr in MUTATING_CALLS and self_items(st.value.func.value):
        return st.value.func.attr
    return None


def is_update_call(st):
    return isinstance(st, ast.Expr) and isinstance(st.value, ast.Call) and isinstance(st.value.func, ast.Attribute) and \
        st.value.func.attr == '_update_items_size' and isinstance(st.value.func.value, ast.Name) and st.value.func.value.id == 'self'


def single(node):
    """the element of a one element tuple / list display (``del_items=(self._items[index], )``), else None"""
    if isinstance(node, (ast.Tuple, ast.List)) and len(node.elts) == 1 and not isinstance(node.elts[0], ast.Starred):
        return node.elts[0]
    return None


def update_guards(stmts):
    """[(index, [(stmt, call, in_slice_branch)])] for each statement that guarantees a bound check on every path: a plain
    self._update_items_size(...) call, or an if/else whose every branch contains one (the branch taken for
    isinstance(index, slice) is marked)"""
    out = []
    for j, st in enumerate(stmts):
        if is_update_call(st):
            out.append((j, [(st, st.value, False)]))
        elif isinstance(st, ast.If) and st.orelse:
            t = ast.unparse(st.test)
            is_slice_test = 'isinstance(' in t and 'slice' in t
            negated = isinstance(st.test, ast.UnaryOp) and isinstance(st.test.op, ast.Not)
            a = [x for x in st.body if is_update_call(x)]
            b = [x for x in st.orelse if is_update_call(x)]
            if a and b:
                out.append((j, [(a[-1], a[-1].value, is_slice_test and not negated), (b[-1], b[-1].value, is_slice_test and negated)]))
    return out


def check(ctx, report):
    model, it = ctx.model, ctx.interp
    ab = model.cls('ArrayBase')
    report.rule('C12.R1', 'check (self._update_items_size) before mutate, describing the same edit')
    report.rule('C12.R2', '_update_items_size: both bounds on the prospective size, raise before the single write')
    report.rule('C12.R3', 'only ArrayBase methods write _items/_items_size')
    report.rule('C12.R4', 'index arguments that may be slices never reach get_item_size as one item')
    report.rule('C12.R5', 'prefix derived from the composed body; max_byte_num fits item_num_size')
    classes = [ab] + model.all_subclasses(ab)
    # R9 first: ArrayBase, and every subclass that overrides part of the sequence interface or of the bookkeeping, evaluated as a
    # transition system.  Where that succeeds it decides R1, R2, R4 and R6 for the class (they remain the reading of the source
    # for code that leaves the evaluable subset)
    tabulated = {}
    for c in classes:
        if c is ab or any(n in c.methods for n in SEQ_METHODS | {'_update_items_size', '__iadd__', 'pop', 'remove', 'clear', 'reverse', 'extend'}):
            tabulated[c] = edit_tabulation(ctx, report, c)
    if tabulated.get(ab):
        report.floor('C12.R9', 3000, 'edits evaluated')
    for c in classes:
        if c is ab or '__attrs_post_init__' in c.methods:
            construction_tabulation(ctx, report, c)
    # R1 / R4
    for c in classes:
        if tabulated.get(c) or (tabulated.get(ab) and not any(n in c.methods for n in SEQ_METHODS | {'_update_items_size'})):
            continue
        for name, f in c.methods.items():
            if name in ('__attrs_post_init__', '__init__'):
                continue
            body = f.node.body
            muts = [(i, mutation_of_items(st)) for i, st in enumerate(body) if mutation_of_items(st)]
            nested = [st for st in ast.walk(f.node) if mutation_of_items(st) and st not in body]
            if not muts and not nested:
                if name in SEQ_METHODS and c is not ab:
                    report.count('C12.R1')
                    # an override that delegates must delegate to a checked method of self
                    calls = [n for n in ast.walk(f.node) if isinstance(n, ast.Call) and isinstance(n.func, ast.Attribute)
                             and isinstance(n.func.value, ast.Name) and n.func.value.id == 'self']
                    if not calls:
                        report.add('C12.R1', f.construct + '@override', 'sequence method overridden without going through a checked ArrayBase method')
                continue
            report.touch(f)
            report.count('C12.R1', len(muts) + len(nested))
            for st in nested:
                report.add('C12.R1', f.construct + '@conditional-mutation', 'mutation of self._items inside a nested block cannot be matched with a dominating check')
            for i, kind in muts:
                if kind in ('reverse', 'sort'):
                    # a permutation of the items: the sum of the item sizes, and with it both bounds, is unchanged
                    continue
                earlier = [j for j, _ in muts if j < i]
                guards = update_guards(body[:i])
                if not guards:
                    report.add('C12.R1', '%s@%s' % (f.construct, kind), 'self._items is mutated without a preceding self._update_items_size(...) on every path')
                    continue
                first_guard = guards[0][0]
                if earlier and min(earlier) < first_guard:
                    report.add('C12.R1', '%s@%s' % (f.construct, kind), 'self._items is mutated before the bound check')
                    continue
                params = f.params
                for _, call, in_slice_branch in guards[-1][1]:
                    kw = {k.arg: k.value for k in call.keywords}
                    dk, ik = ('del_items', 'insert_items') if in_slice_branch else ('del_item', 'insert_item')
                    if kind == 'del-all':
                        d = kw.get('del_items')
                        if not (d is not None and ast.unparse(d) in ('self._items', 'self._items[:]', 'list(self._items)')) or 'insert_items' in kw or 'insert_item' in kw:
                            report.add('C12.R1', '%s@%s' % (f.construct, kind), 'removal of all items must be checked as del_items=self._items')
                    if kind == 'extend':
                        v = kw.get('insert_items')
                        arg = body[i].value.args[0] if body[i].value.args else None
                        local_lists = {t.id for st in body[:i] if isinstance(st, ast.Assign) and isinstance(st.value, ast.Call)
                                       and isinstance(st.value.func, ast.Name) and st.value.func.id in ('list', 'tuple') for t in st.targets if isinstance(t, ast.Name)}
                        if not (isinstance(v, ast.Name) and isinstance(arg, ast.Name) and v.id == arg.id and v.id in local_lists) or 'del_items' in kw or 'del_item' in kw:
                            report.add('C12.R1', '%s@%s' % (f.construct, kind),
                                       'bulk insertion must be checked as insert_items=<the materialised list that is then appended>')
                    if kind in ('del', 'setitem'):
                        d = kw.get(dk) or single(kw.get('del_items'))
                        if not (isinstance(d, ast.Subscript) and self_items(d.value) and isinstance(d.slice, ast.Name) and d.slice.id in params):
                            report.add('C12.R1', '%s@%s' % (f.construct, kind), 'check does not name the item(s) being removed (%s=self._items[<index>])' % dk)
                    if kind in ('setitem', 'insert', 'append'):
                        v = kw.get(ik) or single(kw.get('insert_items'))
                        if not (isinstance(v, ast.Name) and v.id in params):
                            report.add('C12.R1', '%s@%s' % (f.construct, kind), 'check does not name the item(s) being added (%s=<value>)' % ik)
                    other_d = 'del_item' if dk == 'del_items' else 'del_items'
                    if kind == 'del' and (ik in kw or 'insert_item' in kw or 'insert_items' in kw) or \
                            kind in ('insert', 'append') and ('del_item' in kw or 'del_items' in kw):
                        report.add('C12.R1', '%s@%s' % (f.construct, kind), 'check describes a different edit than the mutation that follows')
                # R4: the index parameter may be a slice (MutableSequence contract)
                if kind in ('del', 'setitem'):
                    report.count('C12.R4')
                    slice_branches = [g for g in guards[-1][1] if g[2]]
                    plain_branches = [g for g in guards[-1][1] if not g[2]]
                    if not slice_branches or not plain_branches:
                        report.add('C12.R4', f.construct + '@slice', 'index may be a slice: self._items[index] is then a list handed to get_item_size as one item, _items_size drifts')
    # R6: composite MutableSequence mixins (several primitive edits per call) are replaced by atomic versions
    report.rule('C12.R6', 'bulk edits (extend / += / clear / reverse) are atomic: one bound check, one mutation')
    for name in ('extend', 'clear', 'reverse') if not tabulated.get(ab) else ():
        report.count('C12.R6')
        f = ab.methods.get(name)
        if f is None:
            report.add('C12.R6', ab.construct + '@inherited[%s]' % name,
                       'MutableSequence.%s is inherited: it applies primitive edits one by one, so an edit refused half way leaves the earlier steps '
                       'in place (and reverse() of variable size items can be refused although the result is within bounds)' % name)
            continue
        n_mut = sum(1 for st in ast.walk(f.node) if mutation_of_items(st))
        loops = [n for n in ast.walk(f.node) if isinstance(n, (ast.For, ast.While))]
        if n_mut != 1 or loops:
            report.add('C12.R6', f.construct + '@atomic', 'bulk edit performs %d mutations%s: it must check once and mutate once' % (n_mut, ' inside a loop' if loops else ''))
    report.count('C12.R6')
    ia = ab.methods.get('__iadd__') if not tabulated.get(ab) else None
    if ia is not None and not any(isinstance(n, ast.Call) and isinstance(n.func, ast.Attribute) and n.func.attr == 'extend' for n in ast.walk(ia.node)):
        report.add('C12.R6', ia.construct + '@atomic', '__iadd__ does not go through the atomic extend')
    item_size_agreement(ctx, report, ab)
    derived_state(ctx, report)
    sequence_interface_inherited(ctx, report)
    # enum coded vectors book the width of the fallback class per item and write the width of the item class: the two are equal
    # (shared with C10.R3)
    report.rule('C12.R11', 'enum coded vectors: the width booked per item (fallback class) is the width written per item (code of the item class)')
    from .c10 import widths
    widths(ctx, report, RULE='C12.R11')
    report.floor('C12.R11', 20, 'width obligations')
    protocol_bounds(ctx, report)
    # R2
    u = ab.methods.get('_update_items_size')
    if u is None:
        report.error('C12.R2: ArrayBase._update_items_size vanished')
        return
    report.touch(u)
    report.count('C12.R2')
    if tabulated.get(ab):
        r2_done(ctx, report, model, ab, classes, it)
        return
    writes = [n for n in ast.walk(u.node) if isinstance(n, (ast.AugAssign, ast.Assign)) and
              any(self_items(t, ('_items_size',)) for t in ([n.target] if isinstance(n, ast.AugAssign) else n.targets))]
    raises = [n for n in ast.walk(u.node) if isinstance(n, ast.Raise)]
    body = u.node.body
    if len(writes) != 1 or body[-1] is not writes[0]:
        report.add('C12.R2', u.construct + '@write', '_items_size must be written exactly once, as the last statement')
    lows = highs = 0
    for st in body:
        if isinstance(st, ast.If) and isinstance(st.test, ast.Compare) and len(st.test.ops) == 1 and any(isinstance(x, ast.Raise) for x in st.body):
            left, op, right = st.test.left, st.test.ops[0], st.test.comparators[0]
            txtl, txtr = ast.unparse(left), ast.unparse(right)
            prospective = ('_items_size' in txtl and 'size_diff' in txtl) or ('_items_size' in txtr and 'size_diff' in txtr)
            if not prospective:
                continue
            bound = txtr if '_items_size' in txtl else txtl
            less = isinstance(op, ast.Lt) if '_items_size' in txtl else isinstance(op, ast.Gt)
            greater = isinstance(op, ast.Gt) if '_items_size' in txtl else isinstance(op, ast.Lt)
            exc = ast.unparse(st.body[0].exc) if isinstance(st.body[0], ast.Raise) and st.body[0].exc else ''
            if less and 'min_byte_num' in bound and exc.startswith('NotEnoughData'):
                lows += 1
            if greater and 'max_byte_num' in bound and exc.startswith('TooMuchData'):
                highs += 1
    if lows != 1 or highs != 1:
        report.add('C12.R2', u.construct + '@bounds', 'prospective size must be compared strictly against min_byte_num (NotEnoughData) and max_byte_num (TooMuchData) before the write')
    # size_diff must subtract the deleted and add the inserted item size
    txt = ast.unparse(u.node)
    report.count('C12.R2')
    if 'size_diff -= self.param.get_item_size(del_item)' not in txt.replace('  ', ' ') or 'size_diff += self.param.get_item_size(insert_item)' not in txt:
        # the sizes of what is removed are subtracted, the sizes of what is added are added: single items by their parameter, bulk
        # edits by the loop over their parameter
        source = {}
        for loop in ast.walk(u.node):
            if isinstance(loop, ast.For) and isinstance(loop.target, ast.Name):
                for n in ast.walk(loop):
                    if isinstance(n, ast.AugAssign):
                        source[id(n)] = (loop.target.id, ast.unparse(loop.iter))
        signs = set()
        for n in ast.walk(u.node):
            if isinstance(n, ast.AugAssign) and ast.unparse(n.target) == 'size_diff' and isinstance(n.value, ast.Call) and \
                    ast.unparse(n.value.func) == 'self.param.get_item_size' and len(n.value.args) == 1 and isinstance(n.value.args[0], ast.Name):
                src = n.value.args[0].id
                var, walked = source.get(id(n), (None, None))
                signs.add((type(n.op).__name__, walked if var == src else src))
        ok = signs and {s for s, _ in signs} == {'Sub', 'Add'} and all(w.startswith('del_item') for s, w in signs if s == 'Sub') and \
            all(w.startswith('insert_item') for s, w in signs if s == 'Add')
        if not ok:
            report.add('C12.R2', u.construct + '@diff', 'size difference must be -size(del_item) +size(insert_item)')
    r2_done(ctx, report, model, ab, classes, it)


def r2_done(ctx, report, model, ab, classes, it):
    # R3 ownership over the whole package
    owners = {ab}
    for f in model.functions():
        for n in ast.walk(f.node):
            tgt = None
            if isinstance(n, (ast.Assign, ast.AugAssign, ast.Delete)):
                ts = n.targets if not isinstance(n, ast.AugAssign) else [n.target]
                for t in ts:
                    base = t.value if isinstance(t, ast.Subscript) else t
                    if isinstance(base, ast.Attribute) and base.attr in ('_items', '_items_size'):
                        tgt = base
            elif isinstance(n, ast.Call) and isinstance(n.func, ast.Attribute) and n.func.attr in MUTATING_CALLS and \
                    isinstance(n.func.value, ast.Attribute) and n.func.value.attr == '_items':
                tgt = n.func.value
            if tgt is None:
                continue
            report.count('C12.R3')
            if f.cls is None or f.cls not in owners or not (isinstance(tgt.value, ast.Name) and tgt.value.id == 'self'):
                report.add('C12.R3', f.construct + '@write[%s]' % tgt.attr, 'vector state written outside ArrayBase')
    # R5
    for c in classes:
        f = c.methods.get('compose')
        if f is not None and not f.abstract:
            report.count('C12.R5')
            report.touch(f)
            # compose itself and the helper methods of the class chain it calls (a shared "body with header" helper)
            todo, seen_f = [(f, 0)], set()
            while todo:
                g, depth = todo.pop()
                if id(g) in seen_f:
                    continue
                seen_f.add(id(g))
                for n in ast.walk(g.node):
                    if isinstance(n, ast.Attribute) and n.attr == '_items_size':
                        report.add('C12.R5', f.construct + '@prefix', 'length prefix derived from the cached _items_size instead of the composed body' + (
                            '' if g is f else ' (in %s)' % g.qualname))
                    if depth < 2 and isinstance(n, ast.Call) and isinstance(n.func, ast.Attribute) and isinstance(n.func.value, ast.Name) and \
                            n.func.value.id in ('self', 'cls'):
                        h = c.resolve(n.func.attr)
                        if h is not None and not h.module.external and h.name not in ('_update_items_size',):
                            todo.append((h, depth + 1))
        if c.resolve('get_param') is not None and not c.resolve('get_param').abstract and not c.abstract_methods:
            prm = it.const_call(c, 'get_param')
            if isinstance(prm, ObjV):
                mx, w = prm.attrs.get('max_byte_num'), prm.attrs.get('item_num_size')
                mn = prm.attrs.get('min_byte_num')
                report.count('C12.R5')
                if isinstance(mx, int) and isinstance(w, int) and w > 0 and mx >= 256 ** w:
                    report.add('C12.R5', c.construct + '@get_param', 'max_byte_num %d does not fit a %d byte prefix' % (mx, w))
                if isinstance(mx, int) and isinstance(mn, int) and mn > mx:
                    report.add('C12.R5', c.construct + '@get_param', 'min_byte_num %d exceeds max_byte_num %d' % (mn, mx))
                report.sample({'rule': 'C12.R5', 'class': c.name, 'min': mn, 'max': mx, 'prefix_width': w}, 6)
    if not report.instances.get('C12.R9'):
        report.floor('C12.R1', 3, 'mutation sites')      # R1 is the reading of the source for code R9 could not evaluate
    report.floor('C12.R5', 45, 'container obligations')


# ---- R7: what get_item_size counts per item == what the vector's composer emits per item --------------------------

def size_form_by_evaluation(ctx, f):
    """the same classification from what get_item_size *returns* for probe items (sa.miniexec): a parsable item whose
    composition has 7 bytes, a coded enum member (code of 3 characters, code size 13), a 4 character string - on a parameter
    object with item_size 11, item_num_size 5 and a fallback class 2 bytes wide.  None when not evaluable"""
    from ..miniexec import Evaluator, Native, Obj, Raised, Unsupported, class_call_hook
    if f.cls is None:
        return None

    def chain(name):
        k = ctx.model.try_cls(name)
        return {x.name for x in k.mro if hasattr(x, 'name')} if k is not None else {name}

    class Parsable(Native):
        _isa = chain('ParsableBase') | {'ParsableBaseNoABC'}

        def compose(self):
            return b'\x00' * 7

    class Coded(Native):
        _isa = {'CryptoDataEnumCodedBase', 'CryptoDataEnumBase', 'Enum'}

        def __init__(self):
            self.value = Obj(code='abc', get_code_size=lambda: 13)

    class Param(Native):
        _repo_class = f.cls

        def __init__(self):
            self.item_size, self.item_num_size = 11, 5
            self.fallback_class = Obj(get_byte_num=lambda: 2)
            self.item_class = Obj(get_byte_num=lambda: 2)
    hook = class_call_hook(f.cls, None, ctx.model)
    params = [a.arg for a in f.node.args.args if a.arg != 'self']
    got = {}
    try:
        for key, item in (('P', Parsable()), ('E', Coded()), ('S', 'abcd')):
            try:
                got[key] = Evaluator({'self': Param(), params[0]: item}, hook, hook.name_hook_for(f.module, None)).function(f.node)
            except Raised:
                got[key] = 'err'
            except (AttributeError, TypeError):
                got[key] = 'err'
            except Unsupported:
                got[key] = 'n/a'        # this kind of item is outside what the method can be evaluated on (str(item) of a model object ...)
    except Unsupported:
        return None
    if all(v in ('n/a', 'err') for v in got.values()):
        return None
    t = tuple('err' if got[k] == 'n/a' else got[k] for k in ('P', 'E', 'S'))
    if t == (11, 11, 11):
        return 'fixed:item_size'
    if t == (1, 1, 1):
        return 'fixed:1'
    if t == (2, 2, 2):
        return 'code-width'
    if t[0] == 7 and t[1] == 'err':
        return 'composed'
    if t[1] == 5 + 3:
        return 'prefix+code'
    if t[1] == 3:
        return 'code'
    if t[2] == 4 and t[0] in (7, 'err') and t[1] in (13, 'err'):
        return 'text-item'
    return 'unknown:%r' % (t,)


SEQUENCE_INTERFACE = ('__len__', '__getitem__', '__setitem__', '__delitem__', 'insert', 'append', 'extend', 'clear', 'reverse', 'pop', 'remove',
                      '__iadd__', 'index', 'count', '__contains__', '__iter__', '__reversed__')


CONSTRUCTION = ('__init__', '__new__', '__attrs_post_init__')


def sequence_interface_inherited(ctx, report, RULE='C12.R13', title=None):
    """"holds exactly the items a plain list would hold": the sequence interface of every vector is the one of ArrayBase (its
    own nine methods plus the mixins MutableSequence derives from them - ``remove`` is ``del self[self.index(x)]``, ``in`` is a
    scan with ``==``).  A subclass that redefines one of them - a look-up that compares names instead of items, a ``pop`` with
    another default - answers differently from the list, and the mixins built on the redefined method follow it.  No subclass
    defines a name of the interface (method or class level binding)."""
    model = ctx.model
    report.rule(RULE, title or 'no vector class redefines a method of the sequence interface or its construction: look-ups, edits and the initial '
                'item list are those of ArrayBase / MutableSequence')
    ab = model.cls('ArrayBase')
    n = 0
    for c in model.all_subclasses(ab):
        n += 1
        for name in SEQUENCE_INTERFACE + CONSTRUCTION:
            if name in c.methods or name in c.class_vars:
                f = c.methods.get(name)
                report.add(RULE, '%s@redefines[%s]' % (c.construct, name),
                           '%s.%s replaces the sequence method of ArrayBase / MutableSequence: what the vector answers (and what the mixins built on '
                           'it do - remove, in, +=) is no longer what a plain list of its items answers' % (c.name, name))
                if f is not None:
                    report.touch(f)
    report.count(RULE, n)
    report.floor(RULE, 40, 'vector classes')


def derived_state(ctx, report, RULE='C12.R12'):
    """A vector class that keeps state of its own next to the item list (a lookup table of positions, a cached length ...) has to
    drop or update it in *every* operation that changes the list - otherwise the sequence interface answers from the stale
    state, and the vector no longer holds what a plain list would hold after the same edits.  For every subclass of the vector
    base that writes an instance attribute the base does not know: each method of the class chain that mutates ``self._items``
    must, itself or through the methods of ``self`` it calls, write that attribute too."""
    model = ctx.model
    report.rule(RULE, 'state a vector class keeps next to its item list is rewritten by every operation that changes the list')
    ab = model.cls('ArrayBase')
    base_attrs = {'_items', '_items_size', 'param'}

    def me_of(fn):
        a = fn.node.args.posonlyargs + fn.node.args.args
        return a[0].arg if a else None

    def writes(fn, attr):
        me = me_of(fn)
        return any(isinstance(x, ast.Attribute) and x.attr == attr and isinstance(x.ctx, (ast.Store, ast.Del)) and isinstance(x.value, ast.Name) and
                   x.value.id == me for x in ast.walk(fn.node))

    def mutates_items(fn):
        return any(mutation_of_items(st) for st in ast.walk(fn.node))

    def reaches_write(k, fn, attr, seen):
        if id(fn) in seen:
            return False
        seen.add(id(fn))
        if writes(fn, attr):
            return True
        me = me_of(fn)
        for x in ast.walk(fn.node):
            if isinstance(x, ast.Call) and isinstance(x.func, ast.Attribute):
                recv = x.func.value
                if isinstance(recv, ast.Name) and recv.id == me:
                    g = k.resolve(x.func.attr)
                elif isinstance(recv, ast.Call) and ast.unparse(recv.func) == 'super':
                    g = next((b.methods[x.func.attr] for b in k.mro[1:] if isinstance(b, ClassInfo) and x.func.attr in b.methods and
                              b.methods[x.func.attr] is not fn), None)
                else:
                    g = None
                if g is not None and not g.module.external and reaches_write(k, g, attr, seen):
                    return True
        return False
    n = 0
    for k in [ab] + model.all_subclasses(ab):
        own = set()
        for b in [x for x in k.mro if isinstance(x, ClassInfo) and x.is_subclass_of('ArrayBase') and x is not ab]:
            for fn in b.methods.values():
                me = me_of(fn)
                for x in ast.walk(fn.node):
                    if isinstance(x, ast.Attribute) and isinstance(x.ctx, ast.Store) and isinstance(x.value, ast.Name) and x.value.id == me and \
                            x.attr not in base_attrs and not any(f.name == x.attr for f in k.attrs_fields()):
                        own.add(x.attr)
        n += 1
        if not own:
            continue
        mutators = {}
        for b in [x for x in k.mro if isinstance(x, ClassInfo)]:
            for name, fn in b.methods.items():
                if name not in mutators and name not in ('__attrs_post_init__', '__init__') and k.resolve(name) is fn and mutates_items(fn):
                    mutators[name] = fn
        for attr in sorted(own):
            for name, fn in sorted(mutators.items()):
                n += 1
                if not reaches_write(k, fn, attr, set()):
                    report.add(RULE, '%s@state[%s,%s]' % (k.construct, attr, name),
                               '%s keeps %s next to its items; %s (%s) changes the item list and neither it nor a method it calls rewrites %s: '
                               'the sequence interface then answers from what the list held before' % (k.name, attr, name, fn.construct, attr))
    report.count(RULE, n)
    report.floor(RULE, 40, 'vector classes and their mutators')


def kinds_sized_apart(ctx, report, RULE, c, prm, gis):
    """``get_item_size`` that tells kinds of item apart (``isinstance(item, K)``) is decided kind by kind: for every repository
    class K it names, the composer layout of K gives the encoded size as a function of the lengths of its variable parts (fixed
    integers by width, raw bytes by their length, nested values by the length of their composition); the method is evaluated on a
    model item of kind K for two choices of those lengths and has to return that size.  Returns the number of probes evaluated."""
    from ..miniexec import Evaluator, Native, Obj, Raised, Unsupported, class_call_hook
    from ..values import SelfV
    model = ctx.model
    kinds = []
    for k in [x for x in gis.cls.mro if isinstance(x, ClassInfo)]:
        g = k.methods.get('get_item_size')
        if g is None:
            continue
        for n in ast.walk(g.node):
            if isinstance(n, ast.Call) and isinstance(n.func, ast.Name) and n.func.id == 'isinstance' and len(n.args) == 2:
                for t in (n.args[1].elts if isinstance(n.args[1], (ast.Tuple, ast.List)) else [n.args[1]]):
                    kc = model.try_cls(ast.unparse(t).split('.')[-1])
                    if kc is not None and not kc.external and model.is_parsable(kc) and kc not in kinds:
                        kinds.append(kc)
    runs = 0
    for kc in kinds:
        try:
            cc = ctx.canon.canon(kc, 'compose')
        except Exception:      # pylint: disable=broad-except
            cc = None
        if cc is None or not cc.elements:
            continue
        chain = {x.name for x in kc.mro if hasattr(x, 'name')}
        for length in (5, 300):
            attrs, size, ok = {}, 0, True
            for e in cc.elements:
                path = e.val.path if isinstance(e.val, SelfV) else None
                name = path[0] if path and len(path) == 1 and isinstance(path[0], str) else None
                if e.kind == 'u':
                    size += e.w
                elif e.kind == 'raw' and name:
                    attrs[name] = b'\x01' * length
                    size += length
                elif e.kind == 'nested' and name and e.cls is not None:
                    k2 = e.cls if isinstance(e.cls, ClassInfo) else model.try_cls(str(e.cls))
                    if k2 is None:
                        ok = False
                        break
                    if k2.is_subclass_of('ArrayBase'):
                        p2 = ctx.interp.const_call(k2, 'get_param')
                        pre = p2.attrs.get('item_num_size') if isinstance(p2, ObjV) else None
                        if not isinstance(pre, int):
                            ok = False
                            break

                        class Inner(Native):
                            def __init__(self, n, pre):
                                self.n, self.param, self._items = n, Obj(item_num_size=pre, item_size=1), [0] * n

                            def __len__(self):
                                return self.n

                            def compose(self):
                                return b'\x00' * (self.param.item_num_size + self.n)
                        attrs[name] = Inner(length, pre)
                        size += pre + length
                    else:
                        from .c19 import class_min_size
                        w = class_min_size(k2, ctx.canon)

                        class Fixed(Native):
                            def __init__(self, w):
                                self.w = w

                            def compose(self):
                                return b'\x00' * self.w
                        attrs[name] = Fixed(w)
                        size += w
                else:
                    ok = False
                    break
            if not ok:
                break

            class Item(Native):
                _isa = chain

                def __init__(self, attrs, size):
                    self.__dict__.update(attrs)
                    self._size = size

                def compose(self):
                    return b'\x00' * self._size

            class Param(Native):
                _repo_class = gis.cls

                def __init__(self):
                    for k_, v_ in (prm.attrs or {}).items():
                        if isinstance(v_, (int, str, bytes, type(None))):
                            setattr(self, k_, v_)
            hook = class_call_hook(gis.cls, None, model)
            params = [a.arg for a in gis.node.args.args if a.arg != 'self']
            try:
                got = Evaluator({'self': Param(), params[0]: Item(attrs, size)}, hook, hook.name_hook_for(gis.module, None)).function(gis.node)
            except (Unsupported, Raised, AttributeError, TypeError):
                break
            runs += 1
            if got != size:
                report.add(RULE, '%s@item-size[%s]' % (c.construct, kc.name),
                           'the vector parameter (%s) counts %s bytes for a %s whose variable parts are %d bytes long, the composer of %s writes %d '
                           '(%s): the checked size is not the encoded size' % (gis.construct, got, kc.name, length, kc.name, size,
                                                                              ' '.join(e.sig() for e in cc.elements)))
                break
    return runs


def size_form(f):
    """classification of the value VectorParam*.get_item_size returns"""
    from ..astutil import returned
    rets = [ast.unparse(v).replace(' ', '') for v in returned(f.node)]
    if rets == ['self.item_size']:
        return 'fixed:item_size'
    if rets == ['1']:
        return 'fixed:1'
    if rets == ['len(item.compose())']:
        return 'composed'
    if rets == ['self.fallback_class.get_byte_num()']:
        return 'code-width'
    if len(rets) == 1 and rets[0].endswith('+len(item.value.code)') and 'item_num_size' in rets[0]:
        return 'prefix+code'
    if rets == ['len(item.value.code)']:
        return 'code'
    if rets and all(r in ('len(item.compose())', 'item.value.get_code_size()', 'len(item)', 'len(str(item))') for r in rets):
        return 'text-item'
    return 'unknown:' + '|'.join(rets)[:60]


def emit_form(f):
    """classification of the bytes a vector composer writes per item"""
    calls = [n for n in ast.walk(f.node) if isinstance(n, ast.Call) and isinstance(n.func, ast.Attribute)]
    names = [c.func.attr for c in calls]
    in_loop = {id(c) for loop in ast.walk(f.node) if isinstance(loop, ast.For) for c in ast.walk(loop) if isinstance(c, ast.Call)}
    for c in calls:
        a = c.func.attr
        if a == 'compose_numeric_array' and len(c.args) == 2 and id(c) not in in_loop:
            w = ast.unparse(c.args[1]).replace(' ', '')
            return 'fixed:item_size' if w.endswith('.item_size') else ('fixed:%s' % w)
        if a == 'compose_string_enum_coded' and id(c) in in_loop:
            return 'prefix+code'
        if a in ('compose_numeric_enum_coded',) and id(c) in in_loop:
            return 'code-width'
        if a == 'compose_parsable_array':
            joined = len(c.args) > 1 or any(k.arg == 'separator' for k in c.keywords)
            return 'joined' if joined else 'composed'
        if a == 'compose_string_array':
            return 'joined'
    if 'super' in ast.unparse(f.node) and 'compose' in names:
        return 'delegates'
    return 'unknown:' + ','.join(sorted(set(n for n in names if n.startswith('compose'))))[:60]


def emit_form_ir(ctx, c, prm):
    """the same classification read from the composer's wire layout (helpers inlined through the MRO, so template-method and
    extracted-helper shapes of compose classify like the flat one); None when the layout does not have a recognisable shape"""
    try:
        cn = ctx.canon.canon(c, 'compose')
    except Exception:      # pylint: disable=broad-except
        return None
    if cn is None:
        return None
    els = list(cn.elements)
    while len(els) == 1 and els[0].kind == 'sliced':
        els = list(els[0].body)
    if els and els[0].kind == 'u' and len(els) >= 2:
        els = els[1:]
    if not els:
        return None
    e = els[0]
    if e.kind == 'array' and e.body and e.body[0].kind == 'u' and isinstance(e.body[0].w, int):
        w = e.body[0].w
        return 'fixed:%d' % w
    if e.kind == 'narray':
        sep = e.extra.get('separator') if e.extra else None
        from ..values import BytesV
        joined = sep is not None and not (isinstance(sep, BytesV) and not sep.parts) and sep not in (b'', '')
        return 'joined' if joined else 'composed'
    if e.kind in ('t:parsable_array', 't:string_array'):
        return 'joined'
    if e.kind == 'repeat' and e.body:
        body = list(e.body)
        if len(body) == 1 and body[0].kind in ('alt', 'tryalt'):
            leaves = list(body[0].a) + list(body[0].b)
            if leaves and all(x.kind == 'nested' or (x.kind == 'u' and x.extra.get('enum_coded')) for x in leaves):
                return 'code-width'
        if len(body) == 1 and body[0].kind == 'u' and body[0].extra.get('enum_coded'):
            return 'code-width'
        if len(body) == 2 and body[0].kind == 'u' and body[1].kind == 'text':
            return 'prefix+code'
        if len(body) == 1 and body[0].kind == 'nested':
            return 'composed'
    return None


COMPATIBLE = {
    ('fixed:item_size', 'fixed:item_size'): 'n items of item_size bytes',
    ('fixed:1', 'fixed:1'): 'opaque bytes, one per item',
    ('fixed:1', 'fixed:item_size'): 'opaque parameter fixes item_size to 1',
    ('composed', 'composed'): 'every item contributes its own encoding',
    ('code-width', 'code-width'): 'every item (member or unknown code wrapper) is one code of the fallback width (widths compared by C10.R3)',
    ('prefix+code', 'prefix+code'): 'length prefix of the item class plus the name',
}
# separator joined text vectors: the separators (n - 1 bytes, or 2 per header line) are not counted. Accepted only while the
# bound cannot be reached or is not a wire bound: facts re-checked on every run
JOINED_OK = {'prefix4-unbounded': 'uint32 prefix and max_byte_num = 2**32 - 1: the uncounted separators cannot push a body that fits in memory over the prefix',
             'no-prefix': 'no length prefix on the wire (CRLF separated header block): the bound is a library limit, nothing can overflow'}


def item_size_agreement(ctx, report, ab, RULE='C12.R7', title='the size counted per item equals the bytes the composer writes per item'):
    model, it = ctx.model, ctx.interp
    report.rule(RULE, title)
    for c in model.all_subclasses(ab):
        gp = c.resolve('get_param')
        if c.abstract_methods or gp is None or gp.abstract:
            continue
        prm = it.const_call(c, 'get_param')
        comp = c.resolve('compose')
        if not isinstance(prm, ObjV) or not isinstance(prm.cls, ClassInfo) or comp is None:
            report.undecided.append('%s: get_param() not foldable' % c.name)
            continue
        gis = prm.cls.resolve('get_item_size')
        if gis is None:
            continue
        report.count(RULE)
        report.touch(gis)
        report.touch(comp)
        sf = size_form_by_evaluation(ctx, gis) or size_form(gis)
        kinds_sized_apart(ctx, report, RULE, c, prm, gis)
        ef = emit_form_ir(ctx, c, prm)
        if ef is None:
            ef = emit_form(comp)        # layout not derivable: classify the composer by its own statements
        if ef == 'delegates' or (ef.startswith('unknown') and comp.cls.name == 'TlsHandshakeHelloRandomBytes'):
            # fixed 32 byte random: composes through Vector.compose of its base and strips the synthetic prefix
            base_comp = [k for k in c.mro[1:] if isinstance(k, ClassInfo) and 'compose' in k.methods and k is not comp.cls]
            if base_comp:
                ef = emit_form(base_comp[0].resolve('compose'))
        if ef.startswith('fixed:') and ef[6:].isdigit() and sf in ('fixed:item_size', 'fixed:1'):
            # widths from the layout: the counted size per item has to be the width the composer writes per item
            counted = prm.attrs.get('item_size') if sf == 'fixed:item_size' else 1
            ef = sf if counted == int(ef[6:]) else ef
        if (sf, ef) in COMPATIBLE:
            report.sample({'rule': RULE, 'class': c.name, 'counts': sf, 'emits': ef, 'why': COMPATIBLE[(sf, ef)]}, 14)
            continue
        if ef == 'joined' and sf in ('text-item', 'composed'):
            w, mx = prm.attrs.get('item_num_size'), prm.attrs.get('max_byte_num')
            if w == 4 and mx == 2 ** 32 - 1:
                report.sample({'rule': RULE, 'class': c.name, 'verdict': 'reviewed', 'reason': JOINED_OK['prefix4-unbounded']}, 14)
                continue
            if w == 0:
                report.sample({'rule': RULE, 'class': c.name, 'verdict': 'reviewed', 'reason': JOINED_OK['no-prefix']}, 14)
                continue
            report.add(RULE, c.construct + '@separators', 'separator joined items: the separators are not counted, and the bound %s with a %s byte prefix can be reached' % (mx, w))
            continue
        report.add(RULE, '%s@item-size[%s/%s]' % (c.construct, sf, ef),
                   'the vector parameter counts %s per item (%s) but the composer %s emits %s: the checked size is not the encoded size' % (
                       sf, gis.construct, comp.construct, ef))
    report.floor(RULE, 30, 'vector classes')


def protocol_bounds(ctx, report):
    """R8: minimum, maximum and prefix width of every vector the specification tables describe are the protocol's"""
    from ..spec import load_spec
    from ..speccheck import vector_bounds
    report.rule('C12.R8', 'vector bounds (floor, ceiling, prefix width, item width) equal the bounds of the specification')
    for spec_file in ('tls.json', 'ssh.json', 'dns.json', 'opp.json'):
        table = load_spec(spec_file)['structures']
        for name, entry in table.items():
            if 'vector' not in entry:
                continue
            c = ctx.model.try_cls(name)
            if c is None:
                report.error('C12.R8: specified vector %s vanished' % name)
                continue
            if c.abstract_methods:
                continue
            vector_bounds(ctx, report, 'C12.R8', c, entry)
    report.floor('C12.R8', 20, 'specified vectors')


# ---- R9: the sequence interface evaluated as a transition system -------------------------------------------------------------

def construction_tabulation(ctx, report, ab=None, RULE='C12.R10'):
    """ArrayBase.__attrs_post_init__ evaluated (sa.miniexec, helper methods through the MRO) on a fresh vector model whose
    ``_items`` is the constructor argument - a list, a tuple, a one-shot iterator, bytes, and *another vector of the same
    class* (what every ``attr.ib(converter=XVector)`` hands in) - for item sequences inside and outside the bounds: the new
    vector holds a list of its own (not the argument, not the other vector's list) with the items in order, books exactly
    the sum of their sizes, and refuses a sequence outside the bounds.  A shared list would let edits of one vector change
    another behind its bookkeeping."""
    import itertools
    from ..miniexec import Evaluator, Native, Raised, Unsupported, class_call_hook
    model = ctx.model
    ab = ab or model.cls('ArrayBase')
    f = ab.resolve('__attrs_post_init__')
    report.rule(RULE, 'a new vector owns its item list (also when built from another vector) and books exactly the size of its items')
    if f is None or f.module.external:
        report.error('%s: ArrayBase.__attrs_post_init__ vanished' % RULE)
        return False
    report.touch(f)
    MN, MX = 2, 5

    def sz(item):
        return item + 1

    class Param(Native):
        min_byte_num, max_byte_num, item_size = MN, MX, 1

        def get_item_size(self, item):
            if not isinstance(item, int) or isinstance(item, bool):
                raise Unsupported('item of another kind: %r' % (item,))
            return sz(item)

    class Vec(Native):
        _repo_class = ab

        def __init__(self, arg):
            self._items, self._items_size, self.param = arg, 0, None

        def get_param(self):
            return Param()

        def __iter__(self):
            return iter(list(self._items))

        def __len__(self):
            return len(self._items)

    class OneShot(Native):
        def __init__(self, items):
            self.items = list(items)

        def __iter__(self):
            return self

        def __next__(self):
            if not self.items:
                raise StopIteration
            return self.items.pop(0)

    def extra(n, ev):
        d = ast.unparse(n.func)
        if d == 'attr.validate':
            return None
        if d == 'type' and len(n.args) == 1:
            return type(ev.ev(n.args[0]))
        return NotImplemented
    hook = class_call_hook(ab, extra, model)
    runs = 0
    try:
        for n_items in range(0, 5):
            for items in itertools.product((0, 1, 2), repeat=n_items):
                size = sum(sz(x) for x in items)
                for kind in ('list', 'tuple', 'once', 'vector', 'bytes'):
                    if kind == 'bytes' and (not items):
                        continue
                    runs += 1
                    source = None
                    if kind == 'list':
                        arg = list(items)
                    elif kind == 'tuple':
                        arg = tuple(items)
                    elif kind == 'once':
                        arg = OneShot(items)
                    elif kind == 'bytes':
                        arg = bytes(items)
                    else:
                        if not MN <= size <= MX:
                            continue
                        source = Vec(None)
                        source._items, source._items_size, source.param = list(items), size, Param()
                        arg = source
                    v = Vec(arg)
                    try:
                        Evaluator({'self': v}, hook, None).function(f.node)
                        raised = None
                    except Raised as e:
                        raised = e.what.split('(')[0].split('.')[-1]
                    what = 'a vector built from %s %s' % ({'list': 'the list', 'tuple': 'the tuple', 'once': 'an iterator over', 'vector': 'another vector holding', 'bytes': 'the bytes'}[kind], list(items))
                    key = '%s@construct[%s]' % (f.construct, kind)
                    if not MN <= size <= MX:
                        if raised not in ('NotEnoughData', 'TooMuchData'):
                            report.add(RULE, key, '%s (size %d, bounds %d..%d) is %s' % (what, size, MN, MX, 'accepted' if raised is None else 'refused with ' + raised))
                            return True
                        continue
                    if raised is not None:
                        report.add(RULE, key, '%s (size %d, within %d..%d) raises %s' % (what, size, MN, MX, raised))
                        return True
                    if not isinstance(v._items, list) or list(v._items) != list(items) or v._items_size != size:
                        report.add(RULE, key, '%s holds %r and books size %r (expected %s / %d)' % (what, v._items, v._items_size, list(items), size))
                        return True
                    if v._items is arg or (source is not None and v._items is source._items):
                        report.add(RULE, key, '%s keeps the item list of its argument instead of a list of its own: an edit of one of the two '
                                   'changes the other without its size bookkeeping noticing' % what)
                        return True
    except Unsupported as e:
        report.undecided.append('%s: the vector constructor left the subset the tabulation understands (%s); C13.R2 reads its paths' % (RULE, e))
        return False
    report.count(RULE, runs)
    report.sample({'rule': RULE, 'constructions': runs})
    return True


def edit_tabulation(ctx, report, ab=None):
    """Every editing method of ArrayBase (and the MutableSequence mixin methods built on them) is evaluated (sa.miniexec,
    helper methods through the MRO) on every vector state over a small item alphabet whose items have different sizes
    (a falsy item included), for every index, slice and value of that alphabet, under bounds that the edits can leave on
    both sides.  Precondition of each step is the invariant itself (``_items_size`` == sum of item sizes, within bounds);
    the step must end in a state that a plain list gives for the same edit with the invariant restored, or - when the
    result would leave the bounds - raise the data-length error and leave items and size untouched; list errors
    (IndexError, ValueError) must come out as they do for a list, state untouched.  The invariant is therefore inductive over
    any sequence of edits.  Returns True when every method stayed inside the evaluable subset."""
    import itertools
    from ..miniexec import Evaluator, Native, Obj, Raised, Unsupported, class_call_hook
    model = ctx.model
    ab = ab or model.cls('ArrayBase')
    report.rule('C12.R9', 'every edit of the sequence interface, from every small state: result of the plain list edit with exact size bookkeeping, or refused with nothing changed')
    MN, MX = 2, 5
    # three numbers of sizes 1, 2, 3 and None (a value like any other for a list; a parameter object that sizes items by their
    # kind, as VectorParamNumeric does, gives it a size too - here 1)
    ALPHABET = (0, 1, 2, None)

    def sz(item):
        return 1 if item is None else item + 1

    class Param(Native):
        min_byte_num, max_byte_num, item_size = MN, MX, 1

        def get_item_size(self, item):
            if item is not None and (not isinstance(item, int) or isinstance(item, bool)):
                raise Unsupported('item of another kind: %r' % (item,))
            return sz(item)

    class Vec(Native):
        def __init__(self, items):
            self._items = list(items)
            self._items_size = sum(sz(x) for x in items)
            self.param = Param()

        def __len__(self):
            return len(self._items)
    hook = class_call_hook(ab, None, model)

    def free(name):
        if name == 'slice':
            return slice
        raise Unsupported('free name ' + name)
    nh = hook.name_hook_for(ab.module, free)

    def call(v, method, **kw):
        f = ab.resolve(method)
        if f is None or f.module.external:
            raise Unsupported('method %s is not defined by the repository' % method)
        report.touch(f)
        params = [a.arg for a in f.node.args.args][1:]
        env = {'self': v}
        for p_, (k, val) in zip(params, kw.items()):
            env[p_] = val
        return Evaluator(env, hook, nh).function(f.node)
    states = [list(t) for n in range(0, 5) for t in itertools.product(ALPHABET, repeat=n) if MN <= sum(sz(x) for x in t) <= MX]
    # positions: inside, at and beyond both ends; and two values a list refuses as a position (TypeError, nothing changed)
    idx = (-4, -1, 0, 1, 2, 3, 5, None, '1')
    slices = [slice(None), slice(0, 1), slice(1, None), slice(0, 0), slice(1, 3), slice(None, None, 2), slice(None, None, -1), slice(3, 9), slice(-2, None)]
    class OneShot(Native):
        # an iterator: can be walked once (a generator handed to extend / += / slice assignment)
        def __init__(self, items):
            self.items, self.shown = list(items), list(items)

        def __iter__(self):
            return self

        def __next__(self):
            if not self.items:
                raise StopIteration
            return self.items.pop(0)

        def __repr__(self):
            return 'iter(%s)' % self.shown
    values = [[], [0], [2], [1, 0], [2, 2, 2], [None], [None, 1], ('once', [1, 0]), ('once', [2])]

    def fresh(val):
        return OneShot(val[1]) if isinstance(val, tuple) and val and val[0] == 'once' else val

    def plain(val):
        return list(val[1]) if isinstance(val, tuple) and val and val[0] == 'once' else val

    def ref(items, op, a, b):
        L = list(items)
        if op == 'setitem':
            L[a] = b
        elif op == 'setslice':
            L[a] = list(b)
        elif op in ('delitem', 'delslice'):
            del L[a]
        elif op == 'insert':
            L.insert(a, b)
        elif op == 'append':
            L.append(a)
        elif op in ('extend', 'iadd'):
            L.extend(a)
        elif op == 'clear':
            del L[:]
        elif op == 'reverse':
            L.reverse()
        elif op == 'pop':
            L.pop(a)
        elif op == 'remove':
            L.remove(a)
        return L

    def run(v, op, a, b):
        if op in ('setitem', 'setslice'):
            call(v, '__setitem__', index=a, value=b)
        elif op in ('delitem', 'delslice'):
            call(v, '__delitem__', index=a)
        elif op == 'insert':
            call(v, 'insert', index=a, value=b)
        elif op == 'append':
            call(v, 'append', value=a)
        elif op == 'extend':
            call(v, 'extend', values=a)
        elif op == 'iadd':
            g = ab.resolve('__iadd__')
            if g is not None and not g.module.external:
                call(v, '__iadd__', values=a)
            else:
                call(v, 'extend', values=a)         # MutableSequence.__iadd__: self.extend(values); return self
        elif op == 'clear':
            call(v, 'clear')
        elif op == 'reverse':
            call(v, 'reverse')
        elif op == 'pop':
            g = ab.resolve('pop')
            if g is not None and not g.module.external:
                call(v, 'pop', index=a)
            else:
                call(v, '__getitem__', index=a)     # MutableSequence.pop: v = self[index]; del self[index]
                call(v, '__delitem__', index=a)
        elif op == 'remove':
            g = ab.resolve('remove')
            if g is not None and not g.module.external:
                call(v, 'remove', value=a)
            else:
                call(v, '__delitem__', index=v._items.index(a))     # MutableSequence.remove: del self[self.index(value)]
    cases = []
    for a in idx:
        cases += [('setitem', a, x) for x in ALPHABET] + [('delitem', a, None), ('pop', a, None)] + [('insert', a, x) for x in ALPHABET]
    for sl in slices:
        cases += [('setslice', sl, val) for val in values] + [('delslice', sl, None)]
    cases += [('append', x, None) for x in ALPHABET] + [('remove', x, None) for x in ALPHABET]
    cases += [('extend', val, None) for val in values] + [('iadd', val, None) for val in values] + [('clear', None, None), ('reverse', None, None)]
    LIST_ERRORS = ('IndexError', 'ValueError', 'TypeError')
    failed = set()        # one report per kind of edit: the first state and arguments that show it
    try:
        for items in states:
            for op, a, b in cases:
                report.count('C12.R9')
                if '%s@edit[%s]' % (ab.name, op) in failed:
                    continue
                want_exc, want_items = None, None
                try:
                    want_items = ref(items, op, plain(a), plain(b))
                except (IndexError, ValueError, TypeError) as e:
                    want_exc = type(e).__name__
                if want_exc is None:
                    size = sum(sz(x) for x in want_items)
                    if size < MN:
                        want_exc, want_items = 'NotEnoughData', None
                    elif size > MX:
                        want_exc, want_items = 'TooMuchData', None
                v = Vec(items)
                got_exc = None
                try:
                    run(v, op, fresh(a), fresh(b))
                except Raised as e:
                    got_exc = e.what.split('(')[0].split('.')[-1]
                except (IndexError, ValueError, TypeError) as e:
                    got_exc = type(e).__name__
                where = '%s(%s%s) on %s' % (op, a, ', %s' % (b,) if op in ('setitem', 'setslice', 'insert') else '', items)
                key = '%s@edit[%s]' % (ab.name, op)
                if want_exc is not None:
                    if got_exc != want_exc and not (want_exc in LIST_ERRORS and got_exc in LIST_ERRORS):
                        report.add('C12.R9', '%s:%s' % (ab.module.relpath, key), '%s: expected %s, the edit %s' % (where, want_exc, 'is accepted (items %s, size %s)' % (v._items, v._items_size) if got_exc is None else 'raises ' + got_exc))
                        failed.add(key)
                        continue
                    if v._items != items or v._items_size != sum(sz(x) for x in items):
                        report.add('C12.R9', '%s:%s' % (ab.module.relpath, key), '%s is refused with %s but leaves items %s / size %s behind (were %s / %s): a refused edit must change nothing' % (
                            where, got_exc, v._items, v._items_size, items, sum(sz(x) for x in items)))
                        failed.add(key)
                        continue
                else:
                    if got_exc is not None:
                        report.add('C12.R9', '%s:%s' % (ab.module.relpath, key), '%s: a plain list gives %s (size %d, within %d..%d), the vector raises %s' % (where, want_items, size, MN, MX, got_exc))
                        failed.add(key)
                        continue
                    if v._items != want_items or v._items_size != size:
                        report.add('C12.R9', '%s:%s' % (ab.module.relpath, key), '%s: a plain list gives %s (size %d); the vector holds %s and books size %s' % (where, want_items, size, v._items, v._items_size))
                        failed.add(key)
                        continue
    except Unsupported as e:
        report.sample({'rule': 'C12.R9', 'tabulation': 'not applicable (%s): the typestate rules R1-R6 decide alone' % str(e)[:100]})
        return False
    report.sample({'rule': 'C12.R9', 'states': len(states), 'edits_per_state': len(cases), 'alphabet': 'items 0, 1, 2 of sizes 1, 2, 3; bounds %d..%d' % (MN, MX)})
    return True
