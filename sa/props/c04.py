"""C04 -- incremental reads guided by the missing-byte count reassemble the stream."""
from __future__ import annotations

import ast

from ..canon import min_size
from ..framing import FRAMING
from ..layout import flatten_items, structure
from ..linform import Lin, enclosing_handlers, enclosing_ifs, guard_deficit, lin, single_defs
from ..model import ClassInfo
from ..trace import Op, Raise, Try, walk
from ..values import ClassV, FieldV, Sym, show

META = {
    'explanation': (
        'R1: every construction site of NotEnoughData in the package (found on the AST) is classified: the count must '
        'be, as a linear form with the parser cursor identities built in, exactly "needed - available" of the nearest '
        'enclosing strict comparison guard, or the bytes_needed of a caught NotEnoughData; the remaining sites are in a '
        'reviewed table whose cited facts are re-checked. R2: every framing unit reaches a completeness gate on its '
        'declared length (an explicit NotEnoughData guard or the bounds check inside parse_raw/parse_bytes) before its '
        'body is interpreted. R3: nothing before the gate converts a short read into another error class. R4: every '
        'header-size constant used in a pre-check is <= the minimal size of the class layout and >= what is read '
        'unconditionally before the next check.'
        ' R5: every handler that can catch NotEnoughData on a binary parse path re-raises it (two reviewed exceptions). R6: the LDAP bridge pattern is matched against asn1crypto\'s own message template for byte counts of every magnitude.'),
    'assumptions': ['the induction from R1-R4 (+C03.R5) to the reader-loop statement is an argument in DESIGN.md, not machine checked',
                    'LDAP: the missing count is taken from an asn1crypto error message (library behaviour trusted)'],
    'trusted_base': ['python ast', 'sa.linform', 'sa.interp/layout (framing layouts)'],
    'exhaustive': True,
}

META['explanation'] += ' ' + 'R2 is decided per path: every path of a framing unit that returns a frame passes a gate on the declared length. R7: the SSL 2.0 length the gate waits for, tabulated over all header values.'

META['explanation'] += ' ' + 'R9: the fields of a handshake message are parsed inside the payload its header declares (shared with C03.R5).'

REVIEWED_R1 = {
    'cryptoparser/common/parse.py:ParserBinary.parse_parsable_list': 'under `not items`: 0 of at least 2 bytes (CRLF) present; fact re-checked: guard is `not items` and the count is the literal 2',
    'cryptoparser/common/base.py:ArrayBase._update_items_size': 'a size-bound error of the vector type, not a read: payload is the lower bound; fact re-checked: guard compares the prospective size with min_byte_num',
    'cryptoparser/tls/ldap.py:LDAPMessageParsableBase._parse_asn1': 'requested - available taken from the asn1crypto message; fact re-checked: both operands come from the regex groups 1 and 2 in that order',
}

HEADER_NAMES = ('HEADER_SIZE', '_HEADER_SIZE', '_SIZE', 'MINIMUM_SIZE', 'MESSAGE_SIZE', 'PACKET_LENGTH')


def ned_sites(model):
    for f in model.functions():
        for n in ast.walk(f.node):
            if isinstance(n, ast.Call) and isinstance(n.func, ast.Name) and n.func.id == 'NotEnoughData':
                yield f, n


def class_consts(model, f):
    out = {}
    if f.cls is None:
        return out
    for c in f.cls.mro:
        if isinstance(c, ClassInfo):
            for k, v in c.class_vars.items():
                if isinstance(v, ast.Constant) and isinstance(v.value, int):
                    out.setdefault('cls.' + k, v.value)
                    out.setdefault('self.' + k, v.value)
    return out


def measured_by_callers(model, f, want):
    """the count subtracts a parameter of a checking helper (``_check_available_size(available, required)``): every call in the
    package hands a measure of the available input (len(<buffer>), <parser>.unparsed_length) in at that position"""
    params = [a.arg for a in f.node.args.args]
    subtracted = [k for k, v in want.terms.items() if v < 0 and k in params]
    if len(subtracted) != 1:
        return False
    pos = params.index(subtracted[0]) - (1 if params and params[0] in ('self', 'cls') else 0)
    calls = []
    for g in model.functions():
        if g.module.external or g is f:
            continue
        for c_ in ast.walk(g.node):
            if isinstance(c_, ast.Call) and ((isinstance(c_.func, ast.Name) and c_.func.id == f.name and f.cls is None) or
                                             (isinstance(c_.func, ast.Attribute) and c_.func.attr == f.name and f.cls is not None)):
                arg = c_.args[pos] if 0 <= pos < len(c_.args) else next((k.value for k in c_.keywords if k.arg == subtracted[0]), None)
                calls.append((g, arg))
    if not calls:
        return False
    for g, arg in calls:
        if arg is None:
            return False
        form = lin(arg, {}, single_defs(g.node))
        if form is None or not any(v > 0 and (k.startswith('ulen(') or k.startswith('len(')) for k, v in form.terms.items()):
            return False
    return True


def check(ctx, report):
    model = ctx.model
    report.rule('C04.R1', 'NotEnoughData(count): count == needed - available of the strict enclosing guard')
    report.rule('C04.R2', 'framing unit reaches a completeness gate on its declared length')
    report.rule('C04.R3', 'no reclassification of a short read before the gate')
    report.rule('C04.R4', 'header constant <= minimal frame size')
    for f, call in ned_sites(model):
        report.count('C04.R1')
        report.touch(f)
        payload = call.args[0] if call.args else next((k.value for k in call.keywords if k.arg == 'bytes_needed'), None)
        cons = f.construct
        if payload is None:
            report.add('C04.R1', cons + '@NotEnoughData()', 'NotEnoughData raised without a missing-byte count')
            continue
        # e.bytes_needed of a caught NotEnoughData
        hs = enclosing_handlers(f.node, call)
        if hs and isinstance(payload, ast.Attribute) and payload.attr == 'bytes_needed' and isinstance(payload.value, ast.Name) \
                and any(h.name == payload.value.id and h.type is not None and 'NotEnoughData' in ast.unparse(h.type) for h in hs):
            report.sample({'rule': 'C04.R1', 'site': cons, 'verdict': 're-raises the count of the caught error'})
            continue
        vector_bound = f.cls is not None and f.cls.name == 'ArrayBase' and 'min_byte_num' in ast.unparse(payload)
        if vector_bound and cons not in REVIEWED_R1:
            # the same reviewed site after a helper extraction: any method of ArrayBase that reports its lower bound
            ifs0 = enclosing_ifs(f.node, call)
            if ifs0 and 'min_byte_num' in ast.unparse(ifs0[-1][0].test):
                report.sample({'rule': 'C04.R1', 'site': cons, 'verdict': 'reviewed', 'reason': REVIEWED_R1['cryptoparser/common/base.py:ArrayBase._update_items_size']})
                continue
        if f.cls is not None and f.cls.name == 'LDAPMessageParsableBase':
            # the bridge between the ASN.1 library and NotEnoughData: every count it can hand over is decided by evaluating the
            # bridge against the library's message for short inputs of every magnitude (C04.R6)
            from ..ldapbridge import evaluate
            br = evaluate(ctx)
            if br['evaluated']:
                if 'count' in br['problems']:
                    report.add('C04.R1', cons + '@NotEnoughData(%s)' % ast.unparse(payload), br['problems']['count'])
                else:
                    report.sample({'rule': 'C04.R1', 'site': cons, 'verdict': 'evaluated', 'reason': 'requested - available for every magnitude of the library message'})
                continue
        if cons in REVIEWED_R1:
            ok = reviewed_fact(cons, f, call, payload)
            if not ok:
                report.add('C04.R1', cons + '@reviewed', 'reviewed NotEnoughData site changed shape: ' + REVIEWED_R1[cons])
            else:
                report.sample({'rule': 'C04.R1', 'site': cons, 'verdict': 'reviewed', 'reason': REVIEWED_R1[cons]})
            continue
        ifs = [x for x in enclosing_ifs(f.node, call)]
        guard = None
        for node, in_body in reversed(ifs):
            if in_body:
                guard = node.test
                break
        consts = class_consts(model, f)
        defs = single_defs(f.node)
        want = lin(payload, consts, defs)
        # the construct names the count with single-assignment locals written out, so that naming a subexpression does not
        # change the identity of a finding
        from ..astutil import inline_locals
        key = '%s@NotEnoughData(%s)' % (cons, ast.unparse(inline_locals(payload, f.node)))
        if guard is None:
            report.add('C04.R1', key, 'no enclosing guard establishes that data is missing')
            continue
        gd = guard_deficit(guard, consts, defs)
        if gd is None or want is None:
            report.add('C04.R1', key, 'guard `%s` / count `%s` are not of the form available < needed / needed - available' % (
                ast.unparse(guard), ast.unparse(payload)))
            continue
        deficit, strict = gd
        if not strict:
            report.add('C04.R1', key, 'guard `%s` is not strict: the reported count can be 0' % ast.unparse(guard))
        elif deficit != want:
            report.add('C04.R1', key, 'guard `%s` says %s bytes are missing, the error reports %s' % (ast.unparse(guard), deficit, want))
        elif not any(v < 0 and (k.startswith('ulen(') or k.startswith('len(')) for k, v in want.terms.items()) and \
                not measured_by_callers(model, f, want):
            # needed - available: what is subtracted has to measure the input that is there (len of the buffer, unparsed_length of the
            # parser). A count measured against a *declared* length (a field of the message) asks for bytes the sender never writes
            report.add('C04.R1', key, 'the count %s is not measured against the bytes that are available (no len(<input>) / unparsed_length is '
                       'subtracted): a complete message whose declared size is small is answered with NotEnoughData and the reader waits for '
                       'bytes that are never sent' % ast.unparse(payload))
        else:
            report.sample({'rule': 'C04.R1', 'site': cons, 'guard': ast.unparse(guard), 'count': ast.unparse(payload), 'verdict': 'agree'})
    propagation(ctx, report)
    ldap_bridge(ctx, report)
    report.floor('C04.R1', 30, 'NotEnoughData construction sites')
    framing(ctx, report)
    header_constants(ctx, report)
    # SSL 2.0: the number of bytes a reader is told to wait for is the RECORD-LENGTH the parser derives from the header bytes;
    # decided by the tabulation of that arithmetic over all header values, both header forms (shared with C06.R4)
    from .c06 import ssl2_parse_header
    report.rule('C04.R7', 'SSL 2.0 record: the length the completeness gate waits for is the RECORD-LENGTH of the specification for every header value')
    ssl2_parse_header(ctx, report, model.cls('SslRecord'), RULE='C04.R7')
    report.floor('C04.R7', 1000, 'tabulated SSL 2.0 header values')
    # a reader that loops over a stream removes the reported length after each record: a length that is not the number of
    # bytes the record occupied makes the next record start in the wrong place (shared with C03.R3, framing units only)
    from .c03 import return_lengths
    report.rule('C04.R8', 'framing unit: the length reported with the record is the number of bytes the record occupied')
    return_lengths(ctx, report, RULE='C04.R8', only={n for n, _k, _kind in FRAMING} | framing_subclasses(ctx))
    report.floor('C04.R8', 8, 'framing unit parse results')
    # a handshake message is parsed inside the payload bytes its header declares: a field parser that runs on into the bytes of the
    # next message reports a missing-byte count for data the sender never writes for *this* message (rule shared with C03.R5; the
    # two record layers whose containment is an open finding of C03 are left to C03)
    from .c03 import containment
    report.rule('C04.R9', 'handshake messages: the fields after the declared length are parsed inside the declared payload bytes')
    containment(ctx, report, RULE='C04.R9', only=lambda cname, lenkey, kind: lenkey == 'payload')
    report.floor('C04.R9', 5, 'handshake framing units')


def framing_subclasses(ctx):
    names = {n for n, _k, _kind in FRAMING}
    out = set()
    for c in ctx.model.concrete_parsables():
        if any(getattr(b, 'name', None) in names for b in c.mro):
            out.add(c.name)
    return out


def reviewed_fact(cons, f, call, payload):
    ifs = enclosing_ifs(f.node, call)
    if cons.endswith('parse_parsable_list'):
        return isinstance(payload, ast.Constant) and payload.value == 2 and ifs and ast.unparse(ifs[-1][0].test) == 'not items'
    if cons.endswith('_update_items_size'):
        return ifs and 'min_byte_num' in ast.unparse(ifs[-1][0].test) and 'min_byte_num' in ast.unparse(payload)
    if cons.endswith('_parse_asn1'):
        if not (isinstance(payload, ast.BinOp) and isinstance(payload.op, ast.Sub)):
            return False
        names = {}
        for n in ast.walk(f.node):
            if isinstance(n, ast.Assign) and isinstance(n.targets[0], ast.Name) and 'match.group' in ast.unparse(n.value):
                names[n.targets[0].id] = ast.unparse(n.value)
        l, r = ast.unparse(payload.left), ast.unparse(payload.right)
        rx = [ast.unparse(v) for c in [f.cls] for k, v in c.class_vars.items() if k == '_NOT_ENOUGH_DATA_REGEX']
        order_ok = bool(rx) and rx[0].index('requested') < rx[0].index('available')
        return names.get(l, '').endswith('group(1))') and names.get(r, '').endswith('group(2))') and order_ok
    return False


def framing(ctx, report):
    model = ctx.model
    for cname, lenkey, kind in FRAMING:
        c = model.try_cls(cname)
        if c is None:
            report.error('C04.R2: framing unit %s vanished' % cname)
            continue
        report.count('C04.R2')
        report.touch(c.resolve('_parse'))
        lay = ctx.canon.layout(c, 'parse')
        res = lay.result
        items = lay.items
        cons = c.resolve('_parse').construct
        flat = list(flatten_items(items))
        checks = [it for it in iter_checks(items)]
        if kind == 'asn1':
            report.sample({'rule': 'C04.R2', 'class': cname, 'gate': 'asn1crypto "Insufficient data" -> NotEnoughData (trusted library behaviour)'})
            continue
        if kind == 'text':
            # banner: terminator delimited; a missing terminator must be a short read, not an invalid value
            report.count('C04.R3')
            prims = [o for o in flat if isinstance(o, Op) and o.side == 'parse' and o.target is not None]
            for o in prims:
                if o.prim in ('parse_string_until_separator',):
                    report.add('C04.R3', cons + '@' + o.prim,
                               'a banner that is still incomplete (no terminator yet) is rejected as InvalidValue instead of NotEnoughData: the banner cannot be read incrementally')
                    break
            continue
        if kind == 'const':
            gate = any(is_ned(ch) for ch in checks) or any(isinstance(o, Op) and o.prim in ('parse_raw', 'parse_bytes') for o in flat)
            if not gate:
                report.add('C04.R2', cons + '@gate', 'constant size frame is read without a completeness check')
            continue
        ops = [o for o in flat if isinstance(o, Op) and o.side == 'parse' and o.target is not None]
        lenkey = declared_length_key(ops, lenkey)
        from ..codecs import EVALUATED_CODECS
        if cname in EVALUATED_CODECS and lenkey and not [o for o in ops if o.key == lenkey]:
            # no field of that name any more (one header word split arithmetically): every proper prefix of the evaluated
            # frames has to raise NotEnoughData with the number of missing bytes (sa/codecs.py)
            ev = EVALUATED_CODECS[cname](ctx)
            if ev['evaluated']:
                report.count('C04.R2', ev['runs'])
                if 'parse' in ev['problems']:
                    report.add('C04.R2', cons + '@codec', ev['problems']['parse'])
                else:
                    report.sample({'rule': 'C04.R2', 'class': cname, 'gate': 'evaluated: every proper prefix raises NotEnoughData(missing bytes)'}, 30)
                continue
        length_ops = [o for o in ops if o.key == lenkey] if lenkey else []
        if lenkey and not length_ops:
            report.add('C04.R2', cons + '@length[%s]' % lenkey, 'declared length field %s is no longer read' % lenkey)
            continue
        gate = None
        if lenkey:
            lo = length_ops[0]
            if lo.prim in ('parse_bytes', 'parse_string') or (lo.prim == 'parse_parsable' and lo.args.get('item_size') is not None):
                gate = 'bounds check inside %s' % lo.prim
            for o in ops:
                if o.prim == 'parse_raw' and mentions_field(o.args.get('size'), lenkey):
                    gate = gate or 'bounds check inside parse_raw(%s)' % lenkey
            for ch in checks:
                if is_ned(ch) and mentions_field(ch[1], lenkey):
                    gate = gate or 'explicit guard %s' % show(ch[1])[:60]
        else:
            for ch in checks:
                if is_ned(ch):
                    gate = 'explicit guard %s' % show(ch[1])[:60]
        if gate is not None and lenkey:
            # the gate has to be met on every path that returns a frame, not on one branch only
            def is_gate(x):
                if isinstance(x, Op) and x.side == 'parse':
                    if x.key == lenkey and (x.prim in ('parse_bytes', 'parse_string') or
                                            (x.prim == 'parse_parsable' and x.args.get('item_size') is not None)):
                        return True
                    if x.prim == 'parse_raw' and mentions_field(x.args.get('size'), lenkey):
                        return True
                return isinstance(x, tuple) and x[0] == 'check' and is_ned(x) and mentions_field(x[1], lenkey)

            def ends(seq):
                return any(isinstance(x, Raise) for x in seq[-1:]) if seq else False

            def gated(seq):
                for x in seq:
                    if is_gate(x):
                        return True
                    if isinstance(x, tuple) and x[0] == 'alt':
                        a, b = x[2], x[3]
                        if (gated(a) or ends(a)) and (gated(b) or ends(b)) and (gated(a) or gated(b)):
                            return True
                    if isinstance(x, tuple) and x[0] == 'try' and gated(x[2]):
                        return True
                return False
            if not gated(items):
                report.add('C04.R2', cons + '@gate[some-path]', 'the completeness gate on %s (%s) is met on some paths only: another branch '
                           'returns a frame without having checked that the declared bytes are there' % (lenkey, gate))
        if gate is None:
            report.add('C04.R2', cons + '@gate', 'no completeness gate on the declared frame length before the body is parsed')
        else:
            report.sample({'rule': 'C04.R2', 'class': cname, 'length': lenkey, 'gate': gate}, 30)
        # R3: handlers that catch NotEnoughData and raise something else
        report.count('C04.R3')
        for n in walk(res.block):
            if isinstance(n, Try):
                for excs, name, hb in n.handlers:
                    if excs is not None and 'NotEnoughData' in show(excs):
                        for x in walk(hb):
                            if isinstance(x, Raise) and 'NotEnoughData' not in show(x.exc) and 'reraise' not in show(x.exc):
                                report.add('C04.R3', cons + '@handler', 'a short read is converted into %s before the frame is complete' % show(x.exc))


def iter_checks(items):
    for it in items:
        if isinstance(it, tuple):
            if it[0] == 'check':
                yield it
            elif it[0] == 'alt':
                for x in iter_checks(it[2]):
                    yield x
                for x in iter_checks(it[3]):
                    yield x
            elif it[0] == 'loop':
                for x in iter_checks(it[2]):
                    yield x
            elif it[0] == 'try':
                for x in iter_checks(it[2]):
                    yield x


def is_ned(check):
    for x in check[2]:
        if isinstance(x, Raise) and 'NotEnoughData' in show(x.exc):
            return True
    return False


def fields_in(v, depth=0):
    if depth > 10:
        return []
    if isinstance(v, FieldV):
        return [v.key]
    if isinstance(v, Sym):
        return [k for a in v.args for k in fields_in(a, depth + 1)]
    return []


def declared_length_key(ops, key):
    """the framing table names the element that carries the declared length by its parser key.  When that key is now the key
    of the *body* (``parse_bytes('payload', 3)`` written as ``parse_numeric('payload_length', 3)`` +
    ``parse_raw('payload', parser['payload_length'])``) the declared length is the single parsed field the body's size is
    computed from"""
    if not key:
        return key
    named = [o for o in ops if o.key == key]
    if named and named[0].prim == 'parse_raw':
        fs = sorted(set(fields_in(named[0].args.get('size'))))
        if len(fs) == 1 and any(o.key == fs[0] and o.prim in ('parse_numeric',) for o in ops):
            return fs[0]
    return key


def mentions_field(v, key, depth=0):
    if depth > 10:
        return False
    if isinstance(v, FieldV):
        return v.key == key
    if isinstance(v, Sym):
        return any(mentions_field(a, key, depth + 1) for a in v.args)
    return False


def header_constants(ctx, report, RULE='C04.R4', scope=('cryptoparser.tls.', 'cryptoparser.ssh.'), floor=12, spec_minimum=None):
    """``spec_minimum``: {class name: (shortest encoding the specification allows, citation)} - used instead of the size derived
    from the layout where the specification states one (a repetition that has to have one element)"""
    model = ctx.model
    import json, os
    with open(os.path.join(os.path.dirname(os.path.dirname(os.path.abspath(__file__))), 'nondsl.json')) as fh:
        nondsl = json.load(fh)
    for c in model.concrete_parsables():
        f = c.resolve('_parse')
        # stream facing protocol messages only: DNS RDATA is delivered whole inside a length delimited record
        if not c.module.name.startswith(tuple(scope)) or c.name in nondsl:
            continue
        # find `if len(parsable) < cls.X: raise NotEnoughData(...)` in the functions _parse reaches in its own class chain
        names = set()
        for owner in c.mro:
            if not isinstance(owner, ClassInfo):
                continue
            for g in owner.methods.values():
                defs = single_defs(g.node)
                for n in ast.walk(g.node):
                    # ``len(parsable) < cls.X`` in any spelling (flipped, or through a local holding the difference)
                    if isinstance(n, ast.If) and any(isinstance(x, ast.Raise) for x in n.body):
                        gd = guard_deficit(n.test, {}, defs)
                        if gd is None:
                            continue
                        d = gd[0]
                        plus = [k for k, v in d.terms.items() if v == 1]
                        minus = [k for k, v in d.terms.items() if v == -1]
                        if d.const == 0 and len(d.terms) == 2 and minus == ['len(parsable)'] and len(plus) == 1 and \
                                plus[0].split('.')[-1] in HEADER_NAMES and plus[0].split('.')[0] in ('cls', 'self'):
                            names.add((plus[0].split('.')[-1], g))
        # the same pre-check in a helper function of the module that is handed the class (``_get_parser(cls, parsable)`` with
        # ``len(parsable) < record_class.HEADER_SIZE``)
        for b in c.module.bindings.values():
            if b[0] != 'func':
                continue
            g = b[1]
            gparams = [a.arg for a in g.node.args.args]
            defs = single_defs(g.node)
            for n in ast.walk(g.node):
                if isinstance(n, ast.If) and any(isinstance(x, ast.Raise) for x in n.body):
                    gd = guard_deficit(n.test, {}, defs)
                    if gd is None:
                        continue
                    d = gd[0]
                    plus = [k for k, v in d.terms.items() if v == 1]
                    minus = [k for k, v in d.terms.items() if v == -1]
                    if d.const == 0 and len(d.terms) == 2 and len(minus) == 1 and minus[0].startswith('len(') and len(plus) == 1 and \
                            plus[0].split('.')[-1] in HEADER_NAMES and plus[0].split('.')[0] in gparams:
                        names.add((plus[0].split('.')[-1], g))
        for name, g in names:
            # only when that pre-check is on the path of this class's _parse
            res = ctx.canon.layout(c, 'parse').result
            reached = any(getattr(n, 'func', None) is g for n in walk(res.block)) or g is f
            if not reached:
                continue
            v = c.resolve_var(name)
            if v is None or not (isinstance(v.node, ast.Constant) and isinstance(v.node.value, int)):
                continue
            report.count(RULE)
            cn = ctx.canon.canon(c, 'parse')
            ms = min_size(cn.elements, ctx.canon)
            if spec_minimum is not None and c.name in spec_minimum:
                ms = spec_minimum[c.name][0]
            if v.node.value > ms and cn.elements:
                report.add(RULE, '%s@%s' % (c.construct, name),
                           'pre-check demands %d bytes but the shortest input the layout accepts has %d: a reader is told to wait for bytes a minimal valid message never sends' % (v.node.value, ms))
            else:
                report.sample({'rule': RULE, 'class': c.name, 'constant': name, 'value': v.node.value, 'min_layout_size': ms}, 40)
    report.floor(RULE, floor, 'header constants in pre-checks')


# ---- R5: the not-enough-data signal is never swallowed on a binary parse path --------------------------------------

TEXT_SCOPE = ('cryptoparser/common/field.py', 'cryptoparser/httpx/', 'cryptoparser/dnsrec/txt.py')
REVIEWED_HANDLERS = {
    'cryptoparser/ssh/key.py:SshX509Certificate._parse#1':
        'first attempt of two alternative layouts (with / without algorithm prefix): on failure the same input is parsed again '
        'from offset 0 by the second layout, whose own reads report a short input',
    'cryptoparser/ssh/key.py:SshX509Certificate._parse#2':
        'DER certificate of a host key blob: the blob is delimited by the enclosing RFC 4251 string, whose length check is the '
        'completeness gate; a short DER inside a complete blob is malformed, not incomplete',
}


def propagation(ctx, report):
    """every handler that can catch NotEnoughData (by name, bare, Exception) in the binary parsing code re-raises it (bare
    ``raise``, ``raise e``, or a new NotEnoughData): converting it into another error makes a fragment look invalid, after
    which the reader cannot ask for the rest. Text value parsers work on complete strings and are out of scope."""
    import ast
    model = ctx.model
    report.rule('C04.R5', 'handlers that catch NotEnoughData on binary parse paths re-raise it')
    for f in model.functions():
        if f.module.external or f.module.relpath.startswith(TEXT_SCOPE) or (f.cls is not None and f.cls.name == 'ParserText'):
            continue
        k = 0
        for n in ast.walk(f.node):
            if not isinstance(n, ast.ExceptHandler):
                continue
            t = ast.unparse(n.type) if n.type is not None else ''
            names = {x.strip().split('.')[-1] for x in t.strip('()').split(',')} if t else set()
            if not (t == '' or names & {'NotEnoughData', 'Exception', 'BaseException'}):
                continue
            k += 1
            report.count('C04.R5')
            report.touch(f)
            reraises = False
            for x in ast.walk(n):
                if isinstance(x, ast.Raise):
                    if x.exc is None or (n.name and isinstance(x.exc, ast.Name) and x.exc.id == n.name and names <= {'NotEnoughData'}):
                        reraises = True
                    elif 'NotEnoughData' in ast.unparse(x.exc):
                        reraises = True
                if isinstance(x, ast.Call) and ast.unparse(x.func).endswith('raise_from') and x.args and 'NotEnoughData' in ast.unparse(x.args[0]):
                    reraises = True
            if reraises:
                continue
            key = '%s#%d' % (f.construct, k)
            if key in REVIEWED_HANDLERS:
                report.sample({'rule': 'C04.R5', 'handler': key, 'verdict': 'reviewed', 'reason': REVIEWED_HANDLERS[key]})
                continue
            report.add('C04.R5', '%s@except[%s]' % (f.construct, t or 'bare'),
                       'the handler `except %s` catches NotEnoughData and does not raise it again: a fragment of a valid message is reported as '
                       'something else, the missing-byte count is lost' % (t or ''))
    report.floor('C04.R5', 5, 'handlers that can catch NotEnoughData')


# ---- R6: the LDAP bridge recognises the library's short-input message for every byte count --------------------------

def ldap_bridge(ctx, report):
    """LDAP messages are decoded by asn1crypto; the only source of NotEnoughData is a regular expression applied to that
    library's 'Insufficient data' message. The pattern constant of /repo is matched (python ``re`` over the pattern text,
    no repository code involved) against the message template read from the asn1crypto source, instantiated with byte
    counts of one to six digits: both counts must be recovered, and the count handed to NotEnoughData is their difference"""
    import ast
    import glob
    import re
    model = ctx.model
    report.rule('C04.R6', 'LDAP: the pattern that recognises the decoder\'s short-input message recovers both byte counts for every magnitude')
    c = model.try_cls('LDAPMessageParsableBase')
    if c is None:
        report.error('C04.R6: LDAPMessageParsableBase vanished')
        return
    pattern = None
    for st in c.node.body:
        if isinstance(st, ast.Assign) and any(isinstance(t, ast.Name) and t.id == '_NOT_ENOUGH_DATA_REGEX' for t in st.targets):
            call = st.value
            if isinstance(call, ast.Call) and call.args and isinstance(call.args[0], ast.Constant) and isinstance(call.args[0].value, str):
                pattern = call.args[0].value
    f = c.methods.get('_parse_asn1')
    if pattern is None or f is None:
        report.error('C04.R6: the short-input pattern / _parse_asn1 of the LDAP bridge vanished')
        return
    report.touch(f)
    template = None
    for path in glob.glob('/venv/lib/python*/site-packages/asn1crypto/parser.py'):
        with open(path) as fh:
            for st in ast.parse(fh.read()).body:
                if isinstance(st, ast.Assign) and any(isinstance(t, ast.Name) and t.id == '_INSUFFICIENT_DATA_MESSAGE' for t in st.targets) and \
                        isinstance(st.value, ast.Constant):
                    template = st.value.value
    if template is None:
        report.undecided.append('asn1crypto message template not found: C04.R6 not evaluated')
        return
    try:
        rx = re.compile(pattern)
    except re.error as e:
        report.add('C04.R6', c.construct + '@pattern', 'the short-input pattern does not compile: %s' % e)
        return
    src = ast.unparse(f.node)
    for requested, available in ((2, 0), (2, 1), (9, 8), (10, 9), (17, 12), (31, 30), (127, 99), (128, 100), (1000, 999), (70000, 65535), (123456, 12)):
        report.count('C04.R6')
        m = rx.match(template % (requested, available))
        got = None
        if m is not None:
            try:
                got = (int(m.group(1)), int(m.group(2)))
            except (IndexError, ValueError):
                got = None
        if got != (requested, available):
            report.add('C04.R6', c.construct + '@pattern',
                       'a short input of %d of %d bytes (decoder message %r) is %s: it is reported as invalid instead of incomplete' % (
                           available, requested, template % (requested, available), 'not recognised' if m is None else 'read as %s' % (got,)))
            break
    report.count('C04.R6')
    from ..ldapbridge import evaluate
    br = evaluate(ctx)
    if br['evaluated']:
        report.count('C04.R6', br['runs'])
        if 'count' in br['problems']:
            report.add('C04.R6', f.construct + '@count', 'the count handed to NotEnoughData is not requested - available: %s' % br['problems']['count'])
    elif 'bytes_requested - bytes_available' not in src.replace('(', '').replace(')', ''):
        report.add('C04.R6', f.construct + '@count', 'the count handed to NotEnoughData is not requested - available')
