"""C18 -- insignificant spelling of text fields never changes what is parsed (table/constant clauses)."""
from __future__ import annotations

import ast
import json
import os

from ..model import ClassInfo
from ..values import show

META = {
    'explanation': (
        'R1 case rules: for every concrete named component of an HTTP header field value the statically resolved _check_name '
        'is classified as case-folding (lower() on both operands / delegation to _check_name_insensitive) or exact; the '
        'governing RFCs (sa/specs/text.json) make directive, parameter and cookie-attribute names case-insensitive, so every '
        'such component must fold case; string enums used for header field names must be the case-insensitive kind. R2 '
        'separators: NameValuePairList._parse passes the optional-whitespace set " \\t" and skip_empty=True; header field '
        'names are lower-cased before comparison; the detailed and the generic header field parser use the same value '
        'terminator set (sibling agreement). R3 order-freedom: _parse_basic_params matches components to attributes by name, '
        'never by position, and ignores unmatched components unless an extension attribute exists.'
        ' R1-R4 are decided by tabulation: _check_name over case patterns of every canonical name, the separator scanner over whitespace runs, the list scanner (_parse_string_array and helpers) over list spellings, the component matcher over absent / empty / present values and an upper-case name, the name[=value] composers. R5: list separators are parsed as runs.'),
    'assumptions': ['invariance over the full RFC grammar of spellings (quoting, permutations, redundant separators) is not decided'],
    'trusted_base': ['python ast', 'sa.model method resolution', 'sa/specs/text.json'],
    'exhaustive': True,
}

META['explanation'] += ' ' + 'R6: header line spellings over the ParserText model - name case, SP / HTAB runs after the colon and before the CRLF, for both line parsers. R7: SPF network composer. R8: SPF mechanism names (with and without qualifier), version and modifier names over case patterns, and the term loop over 0..3 trailing spaces.'
META['explanation'] += ' ' + "R10: media type parser evaluated on case patterns. R11: string enumerations whose tokens the specification matches case-insensitively (reviewed table with citations in sa/specs/text.json): the class's _code_eq is evaluated."

META['explanation'] += ' ' + 'R12: quoted components evaluated through the real compose and _parse (quoted and unquoted spelling, base64 with the real codec). R13: the JSON valued fields write every member they hold, false and zero included (evaluated composer). R14: no parsed sequence rebuilt from a mapping keyed by its items (shared with C10.R15).'

META['explanation'] += ' ' + 'R8 also: a term of another mechanism is declined with InvalidType whatever its length and qualifier.'
META['explanation'] += ' ' + 'R15: every parse_string_array call of the header / policy record modules passes skip_empty=True (keyword dictionaries read).'
HERE = os.path.dirname(os.path.dirname(os.path.abspath(__file__)))


def folds_case(model, c, f, depth=0):
    """True: compares case-insensitively; False: exact comparison; None: accepts any name / undecidable"""
    if f is None or depth > 3:
        return None
    body = [s for s in f.node.body if not (isinstance(s, ast.Expr) and isinstance(s.value, ast.Constant))]
    if len(body) == 1 and isinstance(body[0], ast.Pass):
        return None
    for n in ast.walk(f.node):
        if isinstance(n, ast.Call) and isinstance(n.func, ast.Attribute) and isinstance(n.func.value, ast.Name) and \
                n.func.value.id in ('cls', 'self') and n.func.attr in ('_check_name_insensitive', '_check_name') and n.func.attr != f.name:
            return folds_case(model, c, c.resolve(n.func.attr), depth + 1)
    cmps = [n for n in ast.walk(f.node) if isinstance(n, ast.Compare)]
    for cm in cmps:
        l, r = ast.unparse(cm.left), ast.unparse(cm.comparators[0])
        if '.lower()' in l and '.lower()' in r or '.upper()' in l and '.upper()' in r or '.casefold()' in l and '.casefold()' in r:
            return True
        if 'get_canonical_name' in l + r:
            return False
    return None


def case_patterns(name, thorough=False):
    if thorough:
        import itertools
        letters = [i for i, ch in enumerate(name) if ch.lower() != ch.upper()]
        if len(letters) <= 11:
            out = set()
            for mask in itertools.product((False, True), repeat=len(letters)):
                chars = list(name.lower())
                for i, up in zip(letters, mask):
                    if up:
                        chars[i] = chars[i].upper()
                out.add(''.join(chars))
            return sorted(out)
    alt = ''.join(ch.upper() if i % 2 else ch.lower() for i, ch in enumerate(name))
    alt2 = ''.join(ch.lower() if i % 2 else ch.upper() for i, ch in enumerate(name))
    first = name[:1].swapcase() + name[1:]
    last = name[:-1] + name[-1:].swapcase()
    return sorted({name, name.lower(), name.upper(), name.title(), name.swapcase(), name.capitalize(), alt, alt2, first, last})


def name_check_table(c, f, name, thorough=False):
    """spellings of the canonical name (all case patterns of case_patterns) that the class's _check_name rejects, decided by
    evaluating _check_name and the helpers it calls (sa.miniexec); None when the code leaves the evaluable subset"""
    from ..miniexec import Evaluator, Raised, Unsupported, class_call_hook
    if f is None:
        return None
    hook = class_call_hook(c)
    params = [a.arg for a in f.node.args.args if a.arg not in ('self', 'cls')]
    if len(params) != 1:
        return None
    rejected = []
    for v in case_patterns(name, thorough):
        try:
            Evaluator({params[0]: v}, hook, None).function(f.node)
        except Raised:
            rejected.append(v)
        except Unsupported:
            return None
    return rejected


def check(ctx, report):
    model, it = ctx.model, ctx.interp
    with open(os.path.join(HERE, 'specs', 'text.json')) as f:
        spec = json.load(f)
    report.rule('C18.R1', 'names that the RFC makes case-insensitive are compared case-insensitively')
    report.rule('C18.R2', 'optional whitespace / empty elements skipped; field names lower-cased; sibling parsers share the terminator set')
    report.rule('C18.R3', 'components matched by name, never by position')
    base = model.cls('FieldValueComponentBase')
    insens = spec['name_case_insensitive_modules']
    # components of JSON valued fields (NEL): keys are JSON member names, compared exactly (RFC 8259)
    json_members = set()
    fj = model.cls('FieldsJson')
    for k in model.all_subclasses(fj):
        for fld in k.attrs_fields():
            fr = it.new_frame(None, fld.owner.module, recv=None, defcls=fld.owner)
            fr.quiet = True
            v = it.eval(fld.validator_node, fr) if fld.validator_node is not None else None
            from ..values import ValidatorV, ClassV
            while isinstance(v, ValidatorV) and v.kind == 'optional':
                v = v.inner
            if isinstance(v, ValidatorV) and isinstance(v.type, ClassV) and isinstance(v.type.cls, ClassInfo):
                json_members.add(v.type.cls)
    for c in model.all_subclasses(base):
        if c.abstract_methods or c.module.name not in insens or c in json_members:
            continue
        name = it.const_call(c, 'get_canonical_name')
        if not isinstance(name, str) or not name:
            continue
        f = c.resolve('_check_name')
        report.count('C18.R1')
        report.touch(f)
        rejected = name_check_table(c, f, name, ctx.thorough)
        if rejected is None:
            # outside the evaluable subset: fall back to the syntactic classification
            r = folds_case(model, c, f)
            if r is False:
                report.add('C18.R1', '%s@name[%s]' % (c.construct, name),
                           'component name %r is compared case-sensitively; %s' % (name, insens[c.module.name]))
            else:
                report.undecided.append('%s._check_name: case handling not tabulable (syntactic verdict %s)' % (c.name, r))
        elif rejected:
            report.add('C18.R1', '%s@name[%s]' % (c.construct, name),
                       'component name %r is not recognised in the spelling(s) %s; %s' % (name, rejected[:4], insens[c.module.name]))
        else:
            report.sample({'rule': 'C18.R1', 'class': c.name, 'name': name, 'spellings_accepted': len(case_patterns(name, ctx.thorough))}, 8)
    # header field names: enum must be the case-insensitive kind and the parsed name must be lower-cased / folded
    hn = model.cls('HttpHeaderFieldName')
    report.count('C18.R1')
    if not hn.is_subclass_of('StringEnumCaseInsensitiveParsable'):
        report.add('C18.R1', hn.construct + '@case', 'header field names must be matched case-insensitively (RFC 9110 5.1)')
    ci = model.cls('StringEnumCaseInsensitiveParsable').methods.get('_code_eq')
    report.count('C18.R1')
    if ci is None or folds_case_eq(ci) is not True:
        report.add('C18.R1', 'cryptoparser/common/base.py:StringEnumCaseInsensitiveParsable._code_eq@case', 'case-insensitive enum compares without folding case')
    cs = model.cls('StringEnumParsable').methods.get('_code_eq')
    nv = model.cls('NameValueVariantBase').methods.get('_parse_name_and_separator')
    report.count('C18.R1')
    if nv is None or ".lower() != cls.get_canonical_name().lower()" not in ast.unparse(nv.node):
        report.add('C18.R1', (nv.construct if nv else 'NameValueVariantBase._parse_name_and_separator') + '@case', 'header field name is not lower-cased before comparison')
    # ---- R2
    nvl = model.cls('NameValuePairList').methods.get('_parse')
    report.count('C18.R2', 2)
    if nvl is None:
        report.error('C18.R2: NameValuePairList._parse vanished')
    else:
        calls = [n for n in ast.walk(nvl.node) if isinstance(n, ast.Call) and isinstance(n.func, ast.Attribute) and n.func.attr == 'parse_string_array']
        kw = {k.arg: k.value for k in calls[0].keywords} if calls else {}
        ws = kw.get('separator_spaces')
        if not (isinstance(ws, ast.Constant) and set(ws.value) == set(spec['optional_whitespace'])):
            report.add('C18.R2', nvl.construct + '@whitespace', 'optional whitespace around separators must be %r' % spec['optional_whitespace'])
        se = kw.get('skip_empty')
        if not (isinstance(se, ast.Constant) and se.value is True):
            report.add('C18.R2', nvl.construct + '@skip-empty', 'empty list elements must be skipped (skip_empty=True)')
        # the elements are read by NameValuePair (the one place that takes optional double quotes off a value, RFC 9110 5.6.6): as the
        # item class of the list primitive, or called on each element by the method / the helpers of the class it uses
        report.count('C18.R2')
        bodies, seen_, work_ = [], set(), [nvl]
        while work_:
            g_ = work_.pop()
            if id(g_) in seen_:
                continue
            seen_.add(id(g_))
            bodies.append(g_.node)
            for x_ in ast.walk(g_.node):
                if isinstance(x_, ast.Call) and isinstance(x_.func, ast.Attribute) and isinstance(x_.func.value, ast.Name) and x_.func.value.id in ('cls', 'self'):
                    h_ = nvl.cls.resolve(x_.func.attr)
                    if h_ is not None and not h_.module.external and len(seen_) < 8:
                        work_.append(h_)
        as_item_class = any(isinstance(x_, ast.Call) and isinstance(x_.func, ast.Attribute) and x_.func.attr.startswith('parse_') and
                            any(isinstance(y_, ast.Name) and y_.id == 'NameValuePair' for a_ in list(x_.args) + [k_.value for k_ in x_.keywords]
                                for y_ in ast.walk(a_)) for b_ in bodies for x_ in ast.walk(b_))
        parsed_by_call = any(isinstance(x_, ast.Call) and isinstance(x_.func, ast.Attribute) and 'parse' in x_.func.attr and
                             isinstance(x_.func.value, ast.Name) and x_.func.value.id == 'NameValuePair' for b_ in bodies for x_ in ast.walk(b_))
        if not (as_item_class or parsed_by_call):
            report.add('C18.R2', nvl.construct + '@element-parser', 'the elements of a name=value list are not read by NameValuePair: the optional double quotes '
                       'around a value stay part of it (max-age="31536000" is not max-age=31536000)')
    whitespace_tabulation(ctx, report, spec)
    from ..textlists import string_array_table
    string_array_table(ctx, report, 'C18.R2', 'http')
    # sibling agreement on the value terminator
    terms = {}
    for cname in ('HttpHeaderFieldParsedBase', 'HttpHeaderFieldUnparsed'):
        c = model.cls(cname)
        f = c.methods.get('_parse')
        if f is None:
            report.error('C18.R2: %s._parse vanished' % cname)
            continue
        report.touch(f)
        for n in ast.walk(f.node):
            if isinstance(n, ast.Call) and isinstance(n.func, ast.Attribute) and n.func.attr.startswith('parse_string_until_separator') and len(n.args) > 1:
                fr = it.new_frame(None, c.module)
                fr.quiet = True
                v = it.eval(n.args[1], fr)
                items = it.iter_items(v)
                terms[cname] = (f, sorted(items) if items is not None else show(v), n.func.attr)
    report.count('C18.R2')
    if len(terms) == 2:
        (fa, ta, pa), (fb, tb, pb) = terms['HttpHeaderFieldParsedBase'], terms['HttpHeaderFieldUnparsed']
        if ta != tb or pa != pb:
            report.add('C18.R2', fb.construct + '@terminator',
                       'the generic header field parser ends the value at any of %s, the detailed one at %s: a header block does not parse to the same '
                       'list of fields for understood and not-understood field types' % (tb, ta))
        if ta != sorted(spec['field_terminator']):
            report.add('C18.R2', fa.construct + '@terminator', 'field value terminator is %s, RFC 9112 says CRLF' % ta)
    # ---- R3
    fm = model.cls('FieldValueMultiple').methods.get('_parse_basic_params')
    report.count('C18.R3', 3)
    if fm is None:
        report.error('C18.R3: FieldValueMultiple._parse_basic_params vanished')
    else:
        report.touch(fm)
        for n in ast.walk(fm.node):
            if isinstance(n, ast.Subscript) and ast.unparse(n.value) == 'components' and isinstance(n.slice, ast.Constant) and isinstance(n.slice.value, int):
                report.add('C18.R3', fm.construct + '@positional', 'a component is taken by position (%s)' % ast.unparse(n))
            if isinstance(n, ast.Call) and isinstance(n.func, ast.Name) and n.func.id == 'enumerate' and 'components' in ast.unparse(n):
                report.add('C18.R3', fm.construct + '@positional', 'components are enumerated by position')
        ex = model.cls('FieldValueMultiple').methods.get('_parse_extensions')
        if ex is None:
            report.add('C18.R3', fm.construct + '@unknown', 'unknown components must be ignored unless an extension attribute exists')
        else:
            unknown_directives(report, ex)
    name_value_composers(ctx, report)
    component_matching(ctx, report)
    runs, problems, unsupported = multi_value_parse_tabulation(ctx, ctx.thorough)
    fparse = model.cls('FieldValueMultiple').methods.get('_parse')
    if unsupported is not None:
        report.undecided.append('C18.R3: FieldValueMultiple._parse left the subset the tabulation understands (%s); the syntactic rules and the '
                                'three-case evaluation of _parse_basic_params decide alone' % unsupported)
    else:
        report.count('C18.R3', runs)
        report.sample({'rule': 'C18.R3', 'multi_directive_parse_runs': runs, 'domain': 'two attributes x (mandatory|default|optional) x '
                       '(absent|canonical|upper case) x (no value|empty|value) x unknown directive x extension attribute x both orders'})
        for kind in ('order', 'raise'):
            hits = [d for k, d in problems if k == kind]
            if hits:
                report.add('C18.R3', '%s@tabulation[%s]' % (fparse.construct, kind), '%d of %d evaluated inputs: %s' % (len(hits), runs, hits[0][:400]))
    repeatable_separators(ctx, report)
    header_line_spellings(ctx, report)
    spf_network_composer(ctx, report)
    spf_term_spellings(ctx, report)
    media_type_case(ctx, report)
    token_enums_case(ctx, report, spec)
    quoted_components(ctx, report)
    json_fields_composer(ctx, report)
    # a policy / list whose result is rebuilt from a mapping keyed by (a spelling of) the item name depends on repetition and on
    # the letter case of the key (rule shared with C10.R15)
    from .c10 import parsed_sequences_kept
    parsed_sequences_kept(ctx, report, RULE='C18.R14',
                          title='parsers of header and record values hand on every element they read: no result rebuilt from a mapping keyed by the element names as spelled')
    list_elements_skip_empty(ctx, report)
    report.floor('C18.R1', 24, 'named components')


def list_elements_skip_empty(ctx, report, RULE='C18.R15'):
    """RFC 9110 5.6.1 lets a recipient meet empty elements in every list (``a,,b``, ``a; ;b``) and the CSP grammar separates source
    expressions by *runs* of whitespace; to the list primitive a run of separators is a sequence of empty elements, which it
    refuses unless it is told to skip them.  Every call of ``parse_string_array`` in the header and policy record modules (the
    helpers included, whatever their name) therefore passes ``skip_empty=True``; the four calls of the pinned tree do."""
    report.rule(RULE, 'lists of header / policy values skip empty elements: every parse_string_array call of the text modules passes skip_empty=True')
    MODS = ('cryptoparser/httpx/', 'cryptoparser/common/field.py', 'cryptoparser/dnsrec/txt.py')

    def table(expr, module_tree):
        """the keyword dictionary behind ``**cls.NAME`` / ``**NAME``: a dict display or ``dict(...)`` bound to NAME in the module"""
        name = expr.attr if isinstance(expr, ast.Attribute) else expr.id if isinstance(expr, ast.Name) else None
        if name is None or module_tree is None:
            return None
        for st in ast.walk(module_tree):
            if isinstance(st, ast.Assign) and any(isinstance(t, ast.Name) and t.id == name for t in st.targets):
                v = st.value
                if isinstance(v, ast.Dict) and all(isinstance(k, ast.Constant) for k in v.keys):
                    return {k.value: val for k, val in zip(v.keys, v.values)}
                if isinstance(v, ast.Call) and isinstance(v.func, ast.Name) and v.func.id == 'dict' and not v.args:
                    return {k.arg: k.value for k in v.keywords if k.arg}
        return None

    def lax(node, module_tree=None):
        out = []
        for x in ast.walk(node):
            if isinstance(x, ast.Call) and isinstance(x.func, ast.Attribute) and x.func.attr == 'parse_string_array':
                kw = {k.arg: k.value for k in x.keywords if k.arg}
                undecidable = False
                for k in x.keywords:
                    if k.arg is None:       # ``**cls._LIST_PARAMS``
                        more = table(k.value, module_tree)
                        if more is None:
                            undecidable = True
                        else:
                            kw.update(more)
                se = kw.get('skip_empty', x.args[6] if len(x.args) > 6 else None)
                ok = isinstance(se, ast.Constant) and se.value is True
                out.append((x, None if (undecidable and not ok) else ok))
        return out
    sample = lax(ast.parse("parser.parse_string_array('value', ' ', item_class)\nparser.parse_string_array('v', ';', skip_empty=True)"))
    if [ok for _, ok in sample] != [False, True]:
        report.error('%s: the rule does not recognise its own samples' % RULE)
        return
    n = 0
    for f in ctx.model.functions():
        if f.module.external or not f.module.relpath.startswith(MODS):
            continue
        n += 1
        for call, ok in lax(f.node, f.module.tree):
            report.count(RULE)
            if ok is None:
                report.undecided.append('%s: keyword dictionary of %s in %s not readable' % (RULE, ast.unparse(call)[:60], f.construct))
            elif not ok:
                report.add(RULE, '%s@list[%s]' % (f.construct, ast.unparse(call.args[0])[:30] if call.args else '?'),
                           '%s does not skip empty elements: a run of separators (two spaces between source expressions, ";;", ", ,") is refused '
                           'although the grammar allows it' % ast.unparse(call)[:110])
    report.count(RULE, n)
    report.floor(RULE, 150, 'functions of the header / policy record modules')


def folds_case_eq(f):
    for cm in [n for n in ast.walk(f.node) if isinstance(n, ast.Compare)]:
        l, r = ast.unparse(cm.left), ast.unparse(cm.comparators[0])
        if '.lower()' in l and '.lower()' in r:
            return True
    return False


def whitespace_tabulation(ctx, report, spec):
    """ParserText._parse_string_until_separator evaluated (sa.miniexec) on ``item + <whitespace run> + separator`` for
    every run of up to four characters over the optional whitespace alphabet: the item handed on must end before the
    whole run, whatever the order of spaces and tabs in it"""
    import itertools
    from ..miniexec import Evaluator, Obj, Unsupported, Raised, class_call_hook
    pt = ctx.model.cls('ParserText')
    f = pt.methods.get('_parse_string_until_separator')
    if f is None:
        report.error('C18.R2: ParserText._parse_string_until_separator vanished')
        return
    report.touch(f)
    ws = spec['optional_whitespace']
    seen = {}

    def hook(n, ev):
        d = ast.unparse(n.func)
        if d == 'six.ensure_binary':
            v = ev.ev(n.args[0])
            return v.encode('ascii') if isinstance(v, str) else bytes(v)
        if d == 'six.int2byte':
            return bytes([ev.ev(n.args[0])])
        if d == 'six.iterbytes':
            return list(bytes(ev.ev(n.args[0])))
        if d == 'self._apply_item_class':
            args = [ev.ev(a) for a in n.args]
            seen['range'] = (args[1], args[2])
            return ('item', args[1], args[2])
        if d == 'type':
            return 'type'
        return NotImplemented
    item = b'max-age=1'
    params = [a.arg for a in f.node.args.args if a.arg != 'self']
    chook = class_call_hook(pt, hook, ctx.model)
    bad = []
    try:
        for k in range(0, 8 if ctx.thorough else 5):
            for run in itertools.product(ws, repeat=k):
                report.count('C18.R2')
                w = ''.join(run).encode('ascii')
                for tail, may_end in ((b';' + b' preload', False), (b'', True)):
                    data = item + w + tail
                    env = dict(zip(params, ['v', 0, [';'], str, None, may_end, ws]))
                    seen.clear()

                    def names(name, data=data):
                        if name == 'self._parsable':
                            return data
                        if name == 'self._encoding':
                            return 'ascii'
                        raise Unsupported('free name %s' % name)
                    me = Obj(_parsable=data, _encoding='ascii')
                    me._repo_class = pt         # helper methods of the parser class are evaluated from their own statements
                    env['self'] = me
                    ev = Evaluator(env, chook, names)
                    try:
                        ev.function(f.node)
                    except Raised as e:
                        bad.append((w, 'raises %s' % e.what))
                        continue
                    if seen.get('range') != (0, len(item)):
                        bad.append((w, 'item ends at offset %s' % (seen.get('range') or ('?', '?'))[1]))
    except Unsupported as e:
        report.add('C18.R2', f.construct + '@tabulation', 'the separator scanner left the subset the tabulation understands: %s' % e)
        return
    if bad:
        w, what = bad[0]
        report.add('C18.R2', f.construct + '@whitespace-run',
                   '%d whitespace runs before a separator are not stripped completely, e.g. %r: %s (item is %d bytes)' % (len(bad), w.decode(), what, len(item)))
    else:
        report.sample({'rule': 'C18.R2', 'whitespace_runs_tabulated': sum(len(ws) ** k for k in range(8 if ctx.thorough else 5)), 'alphabet': ws})


# ---- name[=value] composers ------------------------------------------------------------------------------------------

class _TextComposer:
    pass


def name_value_composers(ctx, report, rule='C18.R4'):
    """NameValuePair.compose and NameValuePairList.compose evaluated (sa.miniexec) over the four kinds of value the parser
    distinguishes - absent (None), empty string, plain, quoted - and compared with the grammar: ``name`` for an absent
    value, ``name=`` for the empty one, ``name=value`` / ``name="value"`` otherwise; list items joined by separator + SP.
    A composer that writes ``name=`` for None (or ``name`` for '') produces bytes that parse back to a different object."""
    import collections
    from ..miniexec import Evaluator, Native, Obj, Raised, Unsupported
    model = ctx.model
    report.rule(rule, 'name[=value] composers: absent, empty, plain and quoted values are written as the grammar says')

    class Composer(Native):
        def __init__(self):
            self.text = ''

        def compose_string(self, v):
            self.text += v

        def compose_separator(self, v):
            self.text += v

        @property
        def composed(self):
            return self.text.encode('ascii')

        @property
        def composed_bytes(self):
            return self.text.encode('ascii')

    def extra(n, ev):
        if ast.unparse(n.func) == 'ComposerText':
            return Composer()
        if ast.unparse(n.func) == 'len' and n.args:
            v = ev.ev(n.args[0])
            return len(v)
        return NotImplemented
    pair = model.try_cls('NameValuePair')
    lst = model.try_cls('NameValuePairList')
    if pair is None or lst is None or 'compose' not in pair.methods or 'compose' not in lst.methods:
        report.error('%s: NameValuePair / NameValuePairList composers vanished' % rule)
        return
    fp, fl = pair.resolve('compose'), lst.resolve('compose')
    report.touch(fp)
    report.touch(fl)
    from ..miniexec import class_call_hook
    # class level constants and helper methods of the two classes resolve through their class chains
    hook_p, hook_l = class_call_hook(pair, extra, model), class_call_hook(lst, extra, model)
    names_p, names_l = hook_p.name_hook_for(fp.module, None), hook_l.name_hook_for(fl.module, None)
    cases = [(None, False, b'key'), ('', False, b'key='), ('v', False, b'key=v'), ('a b', True, b'key="a b"'), ('', True, b'key=""'), (None, True, b'key')]
    try:
        for value, quoted, want in cases:
            report.count(rule)
            me = Obj(name='key', value=value, quoted=quoted, get_separator=lambda: '=')
            me._repo_class = pair
            got = Evaluator({'self': me}, hook_p, names_p).function(fp.node)
            if bytes(got) != want:
                report.add(rule, '%s@value[%s]' % (fp.construct, 'absent' if value is None else ('empty' if value == '' else 'present')),
                           'a pair with value %r%s is composed as %r, the grammar (and the parser) expect %r' % (value, ' (quoted)' if quoted else '', bytes(got), want))
        for sep in (';', ','):
            for values, want in (([('a', None)], 'a'), ([('a', '')], 'a='), ([('a', '1'), ('b', None), ('c', '')], 'a=1%s b%s c=' % (sep, sep)), ([], '')):
                report.count(rule)
                me = Obj(value=collections.OrderedDict(values), get_separator=lambda sep=sep: sep)
                me._repo_class = lst
                got = Evaluator({'self': me}, hook_l, names_l).function(fl.node)
                if bytes(got) != want.encode('ascii'):
                    kinds = [('absent' if v is None else 'empty' if v == '' else 'present') for _, v in values]
                    report.add(rule, '%s@value[%s]' % (fl.construct, '/'.join(sorted(set(kinds))) or 'none'),
                               'the list %r is composed as %r, the grammar (and the parser) expect %r' % (values, bytes(got), want.encode('ascii')))
                    break
    except (Unsupported, Raised) as e:
        report.add(rule, fp.construct + '@tabulation', 'the name=value composers left the subset the tabulation understands: %s' % e)


def component_matching(ctx, report, rule='C18.R3'):
    """FieldValueMultiple._parse_basic_params evaluated (sa.miniexec) with model components: a directive given without a
    value (None), with an empty value ('') and with a value must reach the component parser as ``name``, ``name=`` and
    ``name=value``; a directive spelled in another case is matched through _check_name and filed under its canonical name;
    an absent directive takes the attribute default; an absent mandatory one is InvalidValue"""
    import collections
    from ..miniexec import Evaluator, Native, NativeError, Obj, Raised, Unsupported, class_call_hook
    model = ctx.model
    fm = model.try_cls('FieldValueMultiple')
    f = fm.methods.get('_parse_basic_params') if fm is not None else None
    if f is None:
        return

    class InvalidType(NativeError):
        pass

    class Component(Native):
        def __init__(self, canonical):
            self.canonical = canonical
            self.seen = None

        def _check_name(self, name):
            if name.lower() != self.canonical.lower():
                raise InvalidType()

        def get_canonical_name(self):
            return self.canonical

        def parse_exact_size(self, data):
            self.seen = bytes(data)
            return ('parsed', self.canonical, bytes(data))
    NOTHING = Obj(name='NOTHING')

    def hook(n, ev):
        d = ast.unparse(n.func)
        if d == 'six.ensure_binary':
            v = ev.ev(n.args[0])
            return v.encode('ascii') if isinstance(v, str) else bytes(v)
        if d in ('InvalidValue', 'InvalidType'):
            return NotImplemented
        return NotImplemented

    def names(name):
        if name == 'attr.NOTHING':
            return NOTHING
        if name == 'cls':
            return 'cls'
        raise Unsupported('free name %s' % name)
    params = [a.arg for a in f.node.args.args if a.arg != 'cls']
    hook = class_call_hook(fm, hook, model)          # helper methods of the class are evaluated from their own statements
    cases = [
        ('Report-URI', None, b'report-uri', 'a directive without a value'),
        ('report-uri', '', b'report-uri=', 'a directive with an empty value'),
        ('REPORT-URI', 'x', b'report-uri=x', 'a directive with a value, upper-case name'),
    ]
    try:
        for spelled, value, want, what in cases:
            report.count(rule)
            comp = Component('report-uri')
            other = Component('preload')
            a2c = {'report_uri': comp, 'preload': other}
            fields = collections.OrderedDict([('report_uri', Obj(default=None)), ('preload', Obj(default=False))])
            components = collections.OrderedDict([(spelled, value), ('x-unknown', '1')])
            out = {}
            Evaluator(dict(zip(params, [a2c, fields, components, out])), hook, names).function(f.node)
            seen = comp.seen.lower() if (value is None and comp.seen is not None) else comp.seen      # a bare name is re-checked by the component
            if seen != want:
                report.add(rule, '%s@component[%s]' % (f.construct, 'absent-value' if value is None else ('empty-value' if value == '' else 'value')),
                           '%s (%r: %r) reaches the component parser as %r, expected %r' % (what, spelled, value, comp.seen, want))
            if out.get('preload') is not False or 'x-unknown' not in components:
                report.add(rule, f.construct + '@default', 'an absent directive does not take its default / an unknown directive is consumed')
        report.count(rule)
        try:
            Evaluator(dict(zip(params, [{'max_age': Component('max-age')}, collections.OrderedDict([('max_age', Obj(default=NOTHING))]),
                                        collections.OrderedDict(), {}])), hook, names).function(f.node)
            report.add(rule, f.construct + '@mandatory', 'an absent mandatory directive is accepted')
        except Raised as e:
            if 'InvalidValue' not in e.what:
                report.add(rule, f.construct + '@mandatory', 'an absent mandatory directive raises %s' % e.what)
    except (Unsupported, Raised) as e:
        report.add(rule, f.construct + '@tabulation', 'the component matcher left the subset the tabulation understands: %s' % e)


def multi_value_parse_tabulation(ctx, thorough=False):
    """FieldValueMultiple._parse (with the helpers it calls, from their own statements) evaluated (sa.miniexec) on a model
    field class with two basic attributes and an optional extension attribute, over every combination of: attribute
    mandatory / defaulted, validator optional or not, the directive absent / spelled canonically / in upper case, its value
    absent (None) / empty / present, an unknown directive present or not, and both orders of the directives.  Every access to
    the dictionaries involved depends on the input only through key membership and _check_name, which the domain exhausts.
    Returns (runs, problems, unsupported): problems are (kind, description) with kind in {'KeyError', 'order', 'raise'}"""
    import collections
    import itertools
    from ..miniexec import Evaluator, Native, NativeError, Obj, Raised, Unsupported, class_call_hook
    model = ctx.model
    fm = model.try_cls('FieldValueMultiple')
    f = fm.methods.get('_parse') if fm is not None else None
    if f is None:
        return 0, [], 'FieldValueMultiple._parse vanished'

    class InvalidType(NativeError):
        pass

    class Component(Native):
        def __init__(self, canonical):
            self.canonical = canonical

        def _check_name(self, name):
            if name.lower() != self.canonical.lower():
                raise InvalidType()

        def get_canonical_name(self):
            return self.canonical

        def parse_exact_size(self, data):
            return ('parsed', self.canonical, bytes(data).lower() if b'=' not in bytes(data) else bytes(data))

    class Optional(Native):
        def __init__(self, inner):
            self.validator = inner
    NOTHING = Obj(name='NOTHING')
    state = {}

    class Fields(Native):
        def __call__(self, **params):
            return ('object', tuple(sorted(params.items(), key=lambda kv: kv[0])))

    def extra(n, ev):
        d = ast.unparse(n.func)
        if d == 'attr.fields_dict':
            return collections.OrderedDict(state['fields'])
        if d == 'is_validator_optional':
            return isinstance(ev.ev(n.args[0]), Optional)
        if d == 'cls._get_header_value_list_class':
            return Obj(parse_exact_size=lambda data: Obj(value=collections.OrderedDict(state['components'])))
        if d == 'cls' and not n.args:
            return ('object', tuple(sorted(((k.arg, ev.ev(k.value)) for k in n.keywords if k.arg), key=lambda kv: kv[0]))) if all(k.arg for k in n.keywords) else \
                ('object', tuple(sorted(ev.ev(n.keywords[0].value).items(), key=lambda kv: kv[0])))
        if d == 'len':
            return 0
        if d == 'issubclass':
            return False
        return NotImplemented

    def names(name):
        if name == 'attr.NOTHING':
            return NOTHING
        if name == 'cls':
            return 'cls'
        raise Unsupported('free name %s' % name)
    hook = class_call_hook(fm, extra, model)
    runs, problems = 0, []
    comps = {'a': Component('alpha-x'), 'b': Component('beta')}
    spell = {'canonical': lambda c: c, 'upper': lambda c: c.upper()}
    field_kinds = [('mandatory', False), ('default', False), ('default', True)]            # (default kind, optional validator)
    presence = [None] + [(sp, v) for sp in ('canonical', 'upper') for v in (None, '', 'x')]
    try:
        for ka, kb in itertools.product(field_kinds, repeat=2):
            for ext in (False, True):
                fields = []
                for nm, (dk, opt) in (('a', ka), ('b', kb)):
                    val = Obj(type=comps[nm])
                    fields.append((nm, Obj(name=nm, validator=Optional(val) if opt else val, default=NOTHING if dk == 'mandatory' else None,
                                           metadata={})))
                if ext:
                    fields.append(('extensions', Obj(name='extensions', validator=Optional(Obj(type=lambda c: ('wrapped', tuple(c.items())))), default=None,
                                                     metadata={'extension': True})))
                state['fields'] = fields
                for pa, pb in itertools.product(presence, repeat=2):
                    for unknown in (False, True):
                        items = []
                        for nm, pr in (('a', pa), ('b', pb)):
                            if pr is not None:
                                items.append((spell[pr[0]](comps[nm].canonical), pr[1]))
                        if unknown:
                            items.append(('x-unknown', '1'))
                        results = []
                        for order in ([items, list(reversed(items))] if len(items) > 1 else [items]):
                            state['components'] = order
                            runs += 1
                            try:
                                got = Evaluator({'parsable': b''}, hook, names).function(f.node)
                                results.append(('ok', got))
                            except Raised as e:
                                results.append(('raise', e.what.split('(')[0]))
                                if 'KeyError' in e.what or 'IndexError' in e.what:
                                    problems.append(('KeyError', '%s with fields %s and directives %r' % (e.what, [(k, v) for k, v in (('a', ka), ('b', kb))], order)))
                                elif 'InvalidValue' not in e.what and 'InvalidType' not in e.what:
                                    problems.append(('raise', '%s with directives %r' % (e.what, order)))
                        if len(results) == 2 and results[0] != results[1]:
                            problems.append(('order', 'the directives %r and the same in reverse order parse to different results (%r / %r)' % (
                                items, results[0], results[1])))
                        if not thorough and len(problems) > 20:
                            return runs, problems, None
    except Unsupported as e:
        return runs, problems, str(e)
    return runs, problems, None


def unknown_directives(report, ex):
    """_parse_extensions evaluated: without an extension attribute the unknown directives are ignored (no parameter is
    set, nothing raises); with one, they are handed to it"""
    import collections
    from ..miniexec import Evaluator, Obj, Raised, Unsupported
    params = [a.arg for a in ex.node.args.args if a.arg != 'cls']
    try:
        out = {}
        left = collections.OrderedDict([('x-unknown', '1')])
        Evaluator(dict(zip(params, [{}, None, left, out])), None, None).function(ex.node)
        if out:
            report.add('C18.R3', ex.construct + '@unknown', 'unknown directives set a parameter although the field has no extension attribute')
        out = {}
        Evaluator(dict(zip(params, [{'extensions': lambda c: ('wrapped', dict(c))}, ('extensions', Obj(default=None)), left, out])), lambda n, ev: (
            ('wrapped', dict(ev.ev(n.args[0]))) if isinstance(n.func, ast.Subscript) else NotImplemented), None).function(ex.node)
        if out.get('extensions') != ('wrapped', {'x-unknown': '1'}):
            report.add('C18.R3', ex.construct + '@extension', 'unknown directives are not handed to the extension attribute (%r)' % (out,))
        out = {}
        Evaluator(dict(zip(params, [{}, ('extensions', Obj(default=None)), collections.OrderedDict(), out])), None, None).function(ex.node)
        if out:
            report.add('C18.R3', ex.construct + '@extension', 'an empty remainder still sets the extension attribute')
    except Raised as e:
        report.add('C18.R3', ex.construct + '@unknown', 'unknown directives make the parser fail (%s): the presence of an unknown directive must not change what is parsed' % e.what)
    except Unsupported as e:
        report.add('C18.R3', ex.construct + '@tabulation', '_parse_extensions left the subset the tabulation understands: %s' % e)


def repeatable_separators(ctx, report, rule='C18.R5'):
    """RFC 9110 5.6.1 / RFC 6265 5.2: a recipient ignores empty list elements, i.e. a run of list separators counts as one.
    Every ``parse_separator`` call of the header / field modules whose separator is a list separator (';' or ',') must
    leave the run length open (max_length None) - bounding it makes ``a=b;; Secure`` invalid"""
    model = ctx.model
    report.rule(rule, 'list separators (; ,) are parsed as runs: empty list elements are ignored')
    n_sites = 0
    for f in model.functions():
        if f.module.external or not f.module.relpath.startswith(('cryptoparser/common/field.py', 'cryptoparser/httpx/')):
            continue
        for n in ast.walk(f.node):
            if isinstance(n, ast.Call) and isinstance(n.func, ast.Attribute) and n.func.attr == 'parse_separator' and n.args and \
                    isinstance(n.args[0], ast.Constant) and n.args[0].value in (';', ','):
                n_sites += 1
                report.count(rule)
                report.touch(f)
                mx = n.args[2] if len(n.args) > 2 else next((k.value for k in n.keywords if k.arg == 'max_length'), None)
                if mx is not None and not (isinstance(mx, ast.Constant) and mx.value is None):
                    report.add(rule, '%s@separator[%s]' % (f.construct, n.args[0].value),
                               'the run of %r separators is bounded (max_length=%s): an empty list element at this position is rejected' % (n.args[0].value, ast.unparse(mx)))
    if n_sites < 1:
        report.error('%s: no list separator site found (anchor moved)' % rule)


def header_line_spellings(ctx, report, rule='C18.R6'):
    """the two header line parsers (HttpHeaderFieldParsedBase for understood fields, HttpHeaderFieldUnparsed for the rest)
    evaluated over the ParserText model (sa/textmodel.py) on the spellings RFC 9110 5.1 / 5.5 / 5.6.3 declare equivalent:
    any letter case of the name, zero or more SP after the colon.  Both must accept every spelling, yield the same value
    text and stop before the CRLF - otherwise a header block parses differently depending on whether the field is
    understood in detail"""
    from ..miniexec import Evaluator, Raised, Unsupported, class_call_hook
    from ..textmodel import TextParser
    model = ctx.model
    report.rule(rule, 'header lines: name case and the optional whitespace after the colon do not matter, for understood and other fields alike')
    parsed = model.try_cls('HttpHeaderFieldSTS')
    unparsed = model.try_cls('HttpHeaderFieldUnparsed')
    if parsed is None or unparsed is None:
        report.error('%s: header field classes vanished' % rule)
        return
    name = 'Strict-Transport-Security'
    spellings = [(name + ':' + ws + 'max-age=1') for ws in ('', ' ', '   ')] + [name.lower() + ': max-age=1', name.upper() + ':max-age=1']
    # RFC 9110 5.5 / 5.6.3: field-line = field-name ":" OWS field-value OWS with OWS = *( SP / HTAB ), on both sides of the value
    spellings += [name + ':\tmax-age=1', name + ': \t max-age=1', name + ': max-age=1 ', name + ': max-age=1\t ']

    def kind(line):
        if '\t' in line:
            return 'tab'
        if line.endswith(' '):
            return 'trailing-space'
        return 'no-space' if ':max' in line else ('spaces' if ':  ' in line else 'case')

    def run(c, line):
        f = c.resolve('_parse')
        report.touch(f)
        box = {}

        def extra(n, ev):
            d = ast.unparse(n.func)
            if d == 'ParserText':
                return TextParser(ev.ev(n.args[0]))
            if d == 'six.ensure_binary':
                v = ev.ev(n.args[0])
                return v.encode('ascii') if isinstance(v, str) else bytes(v)
            if d.endswith('.parse_exact_size'):
                box['value'] = bytes(ev.ev(n.args[0])).decode('ascii')
                return ('value', box['value'])
            if d == 'cls' and 'self' not in ev.env:
                args = [ev.ev(a) for a in n.args]
                if len(args) == 2:
                    box['value'] = args[1]
                return ('object', tuple(args))
            if d.endswith('.normalized_name') or d.endswith('.code'):
                return NotImplemented
            return NotImplemented

        def names(nm):
            if nm.endswith('.value.code') or nm.endswith('get_header_field_name().value.code'):
                return name.lower()
            raise Unsupported('free name %s' % nm)
        hook = class_call_hook(c, extra, model)
        # canonical name of the understood field: a constant of the data table, supplied by the rule
        ev = Evaluator({'parsable': (line + '\r\nNext: x\r\n').encode('ascii')}, lambda n, e: (name.lower() if ast.unparse(n.func).endswith('get_canonical_name') else hook(n, e)),
                       hook.name_hook_for(c.module, names))
        got = ev.function(f.node)
        return box.get('value'), (got[1] if isinstance(got, tuple) and len(got) == 2 else None)
    try:
        for line in spellings:
            for c in (parsed, unparsed):
                report.count(rule)
                try:
                    value, consumed = run(c, line)
                except Raised as e:
                    report.add(rule, '%s@spelling[%s]' % (c.resolve('_parse').construct, kind(line)),
                               'the line %r is refused (%s): %s parser and the other header line parser disagree on an equivalent spelling' % (line, e.what[:40], c.name))
                    continue
                if value != 'max-age=1' or consumed != len(line):
                    report.add(rule, '%s@spelling[%s]' % (c.resolve('_parse').construct, kind(line)),
                               'the line %r yields the value %r and consumes %s of %d bytes; expected the value %r' % (line, value, consumed, len(line), 'max-age=1'))
    except Unsupported as e:
        report.add(rule, parsed.resolve('_parse').construct + '@tabulation', 'the header line parsers left the subset the tabulation understands: %s' % e)


def spf_network_composer(ctx, report, rule='C18.R7'):
    """DnsRecordTxtValueSpfDirectiveBase._compose_ip_network evaluated for IPv4 and IPv6 networks: the prefix length is
    omitted only when it is the address family's maximum (RFC 7208 5.6: a missing length means /32 resp. /128)"""
    from ..miniexec import Evaluator, Native, Obj, Raised, Unsupported
    report.rule(rule, 'SPF ip4 / ip6: the prefix length is omitted only when it is the maximum of the address family')
    c = ctx.model.try_cls('DnsRecordTxtValueSpfDirectiveBase')
    f = c.methods.get('_compose_ip_network') if c is not None else None
    if f is None:
        report.error('%s: _compose_ip_network vanished' % rule)
        return
    report.touch(f)

    class Composer(Native):
        def __init__(self):
            self.text = ''

        def compose_string(self, v):
            self.text += v

        def compose_separator(self, v):
            self.text += v

        def compose_numeric(self, v):
            self.text += str(v)
    params = [a.arg for a in f.node.args.args if a.arg != 'cls']
    from ..miniexec import class_call_hook
    import ipaddress

    def names(name):
        # the address family constants of the standard library are what they are
        table = {'str': str, 'ipaddress.IPV4LENGTH': ipaddress.IPV4LENGTH, 'ipaddress.IPV6LENGTH': ipaddress.IPV6LENGTH}
        if name in table:
            return table[name]
        raise Unsupported('free name ' + name)
    hook = class_call_hook(c, None, ctx.model)       # helper methods and class level constants through the class chain
    try:
        for addr, plen, mx in (('192.0.2.0', 24, 32), ('192.0.2.1', 32, 32), ('10.0.0.0', 8, 32), ('2001:db8::', 32, 128), ('2001:db8::1', 128, 128),
                               ('2001:db8::', 64, 128), ('::', 0, 128), ('0.0.0.0', 0, 32), ('2001:db8::', 31, 128), ('2001:db8::', 33, 128),
                               ('10.0.0.0', 31, 32), ('2001:db8::', 127, 128)):
            report.count(rule)
            comp = Composer()
            net = Obj(network_address=addr, prefixlen=plen, max_prefixlen=mx)
            env = dict(zip(params, [comp, net]))
            env['cls'] = 'cls'
            Evaluator(env, hook, hook.name_hook_for(f.module, names)).function(f.node)
            want = ':' + addr + ('' if plen == mx else '/%d' % plen)
            if comp.text != want:
                report.add(rule, f.construct + '@prefix[%s]' % ('ip6' if ':' in addr else 'ip4'),
                           'the network %s/%d is composed as %r, expected %r (an omitted length means /%d)' % (addr, plen, comp.text, want, mx))
    except (Unsupported, Raised) as e:
        report.add(rule, f.construct + '@tabulation', '_compose_ip_network left the subset the tabulation understands: %s' % e)


# ---- R8: SPF terms: names in any letter case, spaces after the last term ----------------------------------------------------

SPF_NAMES_REF = 'RFC 7208 4.6.1 (mechanism and modifier names are case-insensitive, as ABNF literals are) and 12 (record = version terms *SP)'


def spf_term_spellings(ctx, report, rule='C18.R8'):
    """(a) DnsRecordTxtValueSpfDirectiveBase._parse_qualifier_and_mechanism_name evaluated (sa.miniexec over the ParserText
    model) for every mechanism name in its case patterns, with and without qualifier: no spelling is declined; (b) the
    _check_name of the version and modifier components accepts every case pattern; (c) the term loop of
    DnsRecordTxtValueSpf._parse evaluated on records with 0..3 spaces after the last term yields the same terms."""
    from ..miniexec import Evaluator, Native, Obj, Raised, Unsupported, class_call_hook
    from ..textmodel import TextParser, InvalidValue as MInvalidValue
    model = ctx.model
    report.rule(rule, 'SPF: mechanism, modifier and version names in any letter case, spaces after the last term are not a term')
    base = model.try_cls('DnsRecordTxtValueSpfDirectiveBase')
    top = model.try_cls('DnsRecordTxtValueSpf')
    f = base.methods.get('_parse_qualifier_and_mechanism_name') if base is not None else None
    if f is None or top is None or '_parse' not in top.methods:
        report.error('%s: SPF parser functions vanished' % rule)
        return
    report.touch(f)

    class Parser(TextParser):
        def parse_parsable(self, name, cls_):
            tag = getattr(getattr(cls_, 'info', None), 'name', None) or getattr(cls_, 'name', None) or str(cls_)
            if 'Qualifier' in tag:
                if self.data[self.pos:self.pos + 1] in (b'+', b'-', b'~', b'?'):
                    self.values[name] = self._text(self.data[self.pos:self.pos + 1])
                    self.pos += 1
                    return
                raise MInvalidValue(name)
            if 'Version' in tag:
                if self.data[self.pos:self.pos + 6].lower() != b'v=spf1':
                    raise MInvalidValue(name)
                self.values[name] = 'spf1'
                self.pos += 6
                return
            # a term: everything up to the next space; an empty term is no term
            end = self.data.find(b' ', self.pos)
            end = len(self.data) if end < 0 else end
            if end == self.pos:
                raise MInvalidValue(name)
            self.values[name] = ('term', self._text(self.data[self.pos:end]))
            self.pos = end

        def __delitem__(self, k):
            self.values.pop(k, None)
    # (a) mechanism names
    mechs = ['all', 'include', 'a', 'mx', 'ptr', 'ip4', 'ip6', 'exists']
    try:
        for mech in mechs:
            for q in ('', '-', '~'):
                for sp in case_patterns(mech, ctx.thorough):
                    report.count(rule)

                    def extra(n, ev, mech=mech):
                        d = ast.unparse(n.func)
                        if d == 'ParserText':
                            return Parser(ev.ev(n.args[0]))
                        if d.endswith('get_mechanism'):
                            return Obj(value=Obj(code=mech))
                        return NotImplemented
                    hook = class_call_hook(base, extra, model)
                    ev = Evaluator({'parsable': (q + sp + ':x').encode('ascii')}, hook, hook.name_hook_for(base.module, None))
                    try:
                        got = ev.function(f.node)
                    except Raised as e:
                        report.add(rule, '%s@mechanism-case' % f.construct, 'the mechanism %r written %r is declined (%s); %s' % (mech, q + sp, e.what[:40], SPF_NAMES_REF))
                        raise StopIteration
                    if not isinstance(got, Parser) or got.pos != len(q + sp):
                        report.add(rule, '%s@mechanism-case' % f.construct, 'after %r the parser stands at %s, expected %d' % (q + sp, getattr(got, 'pos', None), len(q + sp)))
                        raise StopIteration
        # (a2) a term that belongs to another mechanism is *declined* (InvalidType), whatever its length and qualifier: the term loop
        # tries the classes one after the other, any other error ends the whole record - also for the short terms at its end
        for mech in mechs:
            for term in ('mx', '?mx', '-mx', 'a', '+a', '?a', '~all', 'all', 'ip4:1.2.3.4', '-ptr', 'exists:x'):
                if term.lstrip('+-~?').split(':')[0].startswith(mech):
                    continue        # the name (or a name that begins like it: the class's own _parse sorts that out) 
                report.count(rule)

                def extra(n, ev, mech=mech):
                    d = ast.unparse(n.func)
                    if d == 'ParserText':
                        return Parser(ev.ev(n.args[0]))
                    if d.endswith('get_mechanism'):
                        return Obj(value=Obj(code=mech))
                    return NotImplemented
                hook = class_call_hook(base, extra, model)
                ev = Evaluator({'parsable': term.encode('ascii')}, hook, hook.name_hook_for(base.module, None))
                try:
                    ev.function(f.node)
                    outcome = 'accepted'
                except Raised as e:
                    outcome = e.what.split('(')[0].split('.')[-1]
                if outcome != 'InvalidType':
                    report.add(rule, '%s@declines' % f.construct, 'the term %r offered to the %r mechanism is %s instead of being declined (InvalidType): the record that '
                               'ends with it is refused, the same record followed by a space is not; %s' % (term, mech, outcome, SPF_NAMES_REF))
                    raise StopIteration
    except StopIteration:
        pass
    except Unsupported as e:
        report.add(rule, f.construct + '@tabulation', 'the mechanism name parser left the subset the tabulation understands: %s' % e)
    # (b) version and modifier names
    for cname, nm in (('DnsRecordTxtValueSpfVersion', 'v'), ('DnsRecordTxtValueSpfModifierRedirect', 'redirect'), ('DnsRecordTxtValueSpfModifierExplanation', 'exp')):
        c = model.try_cls(cname)
        g = c.resolve('_check_name') if c is not None else None
        report.count(rule)
        if g is None:
            report.error('%s: %s._check_name vanished' % (rule, cname))
            continue
        report.touch(g)
        rejected = []
        try:
            for v in case_patterns(nm, ctx.thorough):
                hk = class_call_hook(c, lambda n, ev, nm=nm: nm if ast.unparse(n.func).endswith('get_canonical_name') else NotImplemented, model)
                try:
                    Evaluator({[a.arg for a in g.node.args.args][-1]: v}, hk, hk.name_hook_for(c.module, None)).function(g.node)
                except Raised:
                    rejected.append(v)
        except Unsupported:
            rejected = None
        if rejected is None:
            report.add(rule, '%s@name[%s]' % (c.construct, nm), 'the name check of %s is not tabulable' % cname)
        elif rejected:
            report.add(rule, '%s@name[%s]' % (c.construct, nm), 'the name %r is not recognised in the spelling(s) %s; %s' % (nm, rejected[:4], SPF_NAMES_REF))
    # (c) spaces after the last term
    g = top.resolve('_parse')
    report.touch(g)
    try:
        want = None
        for tail in ('', ' ', '  ', '   '):
            report.count(rule)
            box = {}

            def extra2(n, ev):
                d = ast.unparse(n.func)
                if d == 'ParserText':
                    return Parser(ev.ev(n.args[0]))
                if d == 'cls':
                    kw = {k.arg: ev.ev(k.value) for k in n.keywords}
                    box['terms'] = list(kw.get('terms', []))
                    return ('record', tuple(box['terms']))
                return NotImplemented
            hook = class_call_hook(top, extra2, model)

            def names(nm):
                r = model.resolve_name(top.module, nm)
                if r is not None:
                    return Obj(name=nm)
                raise Unsupported('free name ' + nm)
            ev = Evaluator({'parsable': ('v=spf1 mx -all' + tail).encode('ascii')}, hook, hook.name_hook_for(top.module, names))
            try:
                ev.function(g.node)
            except Raised as e:
                report.add(rule, '%s@trailing-space' % g.construct, 'the record %r is not read like the record without the trailing space(s): the space run after the last term is taken for the start of another term (%s); %s' % ('v=spf1 mx -all' + tail, e.what[:40], SPF_NAMES_REF))
                break
            terms = box.get('terms')
            if want is None:
                want = terms
            if terms != want or terms is None or len(terms) != 2:
                report.add(rule, '%s@trailing-space' % g.construct, 'the record %r yields %d terms (%s), the record without the trailing space(s) %d; %s' % (
                    'v=spf1 mx -all' + tail, len(terms or []), [t[1] if isinstance(t, tuple) else t for t in (terms or [])][-2:], len(want or []), SPF_NAMES_REF))
                break
    except Unsupported as e:
        report.add(rule, g.construct + '@tabulation', 'the SPF record parser left the subset the tabulation understands: %s' % e)
    report.floor(rule, 60, 'spellings')


# ---- R10: media types ----------------------------------------------------------------------------------------------------------

def media_type_case(ctx, report, RULE='C18.R10'):
    """RFC 9110 8.3.1: "The type and subtype tokens are case-insensitive."  FieldValueMimeType._parse is evaluated (sa.miniexec over
    the ParserText model) on the case patterns of a media type: all of them give the object of the lower case spelling"""
    import ast
    from ..miniexec import Evaluator, Native, Raised, Unsupported, class_call_hook, exception_values
    from ..textmodel import InvalidValue, TextParser
    report.rule(RULE, 'media types: type and subtype are matched in any letter case and give one object')
    c = ctx.model.try_cls('FieldValueMimeType')
    f = c.methods.get('_parse') if c is not None else None
    if f is None:
        report.error(RULE + ': FieldValueMimeType._parse vanished')
        return
    report.touch(f)
    MEMBERS = ('application', 'audio', 'font', 'example', 'image', 'message', 'model', 'multipart', 'text', 'video')

    def registry(value):
        if value not in MEMBERS:
            raise InvalidValue(value)        # the primitives turn the ValueError of an enum lookup into InvalidValue
        return ('member', value)

    class Parser(TextParser):
        pass
    made = {}
    exc = exception_values('InvalidValue', 'InvalidType')

    def extra(n, ev):
        d = ast.unparse(n.func)
        if d == 'ParserText':
            return Parser(ev.ev(n.args[0]))
        if d in ('FieldValueMimeType', 'cls'):
            kw = {}
            for k in n.keywords:
                if k.arg is None:
                    kw.update(ev.ev(k.value).values)
                else:
                    kw[k.arg] = ev.ev(k.value)
            args = [ev.ev(a) for a in n.args]
            made['object'] = (tuple(args), tuple(sorted(kw.items())))
            return ('mime',)
        if d == 'MimeTypeRegistry':
            return registry(*[ev.ev(a) for a in n.args])
        return exc(n, ev)

    def names(name):
        if name == 'MimeTypeRegistry':
            return registry
        if name == 'str':
            return str
        raise Unsupported('free name ' + name)
    hook = class_call_hook(c, extra, ctx.model)
    nh = hook.name_hook_for(c.module, names)
    problems = {}
    try:
        results = {}
        for text in ('text/html', 'Text/HTML', 'TEXT/html', 'text/Html', 'application/JSON', 'application/json'):
            report.count(RULE)
            made.clear()
            try:
                Evaluator({'cls': 'cls', 'parsable': text.encode('ascii')}, hook, nh).function(f.node)
                results[text] = made.get('object')
            except Raised as e:
                results[text] = 'refused (%s)' % e.what[:40]
        for text, got in results.items():
            want = results[text.lower()]
            if got != want:
                problems.setdefault('case', 'the media type %r gives %s, its lower case spelling %s (RFC 9110 8.3.1: type and subtype are case-insensitive)' % (text, got, want))
        if isinstance(results['text/html'], str):
            problems.setdefault('plain', 'the media type text/html is %s' % results['text/html'])
    except Unsupported as e:
        report.add(RULE, f.construct + '@tabulation', 'the media type parser left the subset the tabulation understands: %s' % e)
        return
    for k, v in sorted(problems.items()):
        report.add(RULE, '%s@media-type[%s]' % (f.construct, k), v)
    report.floor(RULE, 6, 'media type spellings')


# ---- R11: enumerated tokens -----------------------------------------------------------------------------------------------------

def token_enums_case(ctx, report, spec, RULE='C18.R11'):
    """the string enumerations whose tokens the governing specification matches case-insensitively (table in sa/specs/text.json,
    one citation each): the class's own ``_code_eq`` - found through its MRO and evaluated - accepts the token in another case"""
    from ..miniexec import Evaluator, Raised, Unsupported, class_call_hook
    report.rule(RULE, 'enumerated tokens the specification matches case-insensitively are matched case-insensitively')
    table = spec.get('case_insensitive_string_enums', {})
    for name, why in sorted(table.items()):
        c = ctx.model.try_cls(name)
        if c is None:
            report.error('%s: the enumeration %s vanished' % (RULE, name))
            continue
        f = c.resolve('_code_eq')
        if f is None:
            report.add(RULE, '%s@matcher' % c.construct, '%s has no _code_eq in its class chain (%s)' % (name, why))
            continue
        report.count(RULE)
        report.touch(f)
        hook = class_call_hook(c, None, ctx.model)
        params = [a.arg for a in f.node.args.args]
        try:
            verdicts = []
            for a, b in (('self', 'SELF'), ('block', 'Block'), ("'none'", "'NONE'")):
                verdicts.append(bool(Evaluator(dict(zip(params, ['cls', a, b])), hook, hook.name_hook_for(f.module, None)).function(f.node)))
            same = bool(Evaluator(dict(zip(params, ['cls', 'self', 'self'])), hook, hook.name_hook_for(f.module, None)).function(f.node))
            other = bool(Evaluator(dict(zip(params, ['cls', 'self', 'sel'])), hook, hook.name_hook_for(f.module, None)).function(f.node))
        except (Unsupported, Raised) as e:
            report.add(RULE, '%s@matcher' % c.construct, '_code_eq of %s left the subset the evaluation understands: %s' % (name, e))
            continue
        if not all(verdicts):
            report.add(RULE, '%s@matcher' % c.construct, 'the tokens of %s are matched case-sensitively (%s): a spelling in another letter case is refused or read as something else; %s' % (
                name, f.qualname if hasattr(f, 'qualname') else f.name, why))
        if not same or other:
            report.add(RULE, '%s@matcher[exact]' % c.construct, '_code_eq of %s does not tell equal tokens from different ones' % name)
    report.floor(RULE, 10, 'case-insensitive token enumerations')


# ---- R12: quoted components ----------------------------------------------------------------------------------------------------

def quoted_components(ctx, report, RULE='C18.R12'):
    """The components whose value is written as a quoted string (``name="value"``: pins, report URIs, base64 data ...): the real
    ``compose`` of every concrete class is evaluated for sample values, and the real ``_parse`` of the same class is evaluated on
    the composed spelling and on the spelling without the quotes (RFC 9110 5.6.4 / RFC 7469 2.1: a parameter value is a token or a
    quoted-string, the quotes are not part of the value).  Both must be accepted and give the value that was composed.  The base64
    codec is the standard library's, the data type of the dependency is modelled by its definition (value + base64 text)."""
    import ast
    import base64
    from ..miniexec import Evaluator, Native, Raised, Unsupported, class_call_hook, exception_values
    from ..textmodel import TextParser
    model = ctx.model
    report.rule(RULE, 'quoted components: the composed spelling and the unquoted one are accepted by the class that wrote them and give the same value')
    root = model.try_cls('FieldValueComponentQuotedString')
    if root is None:
        report.error('%s: FieldValueComponentQuotedString vanished' % RULE)
        return

    class B64(Native):
        """cryptodatahub.common.types.Base64Data: the bytes, rendered as their base64 text"""
        def __init__(self, value):
            self.value = bytes(value)

        def __str__(self):
            return base64.b64encode(self.value).decode('ascii')

        def __format__(self, spec):
            return format(str(self), spec)

        def __eq__(self, other):
            return isinstance(other, B64) and other.value == self.value

        def __hash__(self):
            return hash(self.value)

        def __repr__(self):
            return 'Base64Data(%r)' % self.value

    class Composer(Native):
        def __init__(self):
            self.text = ''

        def compose_string(self, v):
            self.text += str(v)

        def compose_separator(self, v):
            self.text += v

        def compose_string_array(self, values, separator=','):
            self.text += separator.join(str(v) for v in values)

        @property
        def composed(self):
            return self.text.encode('ascii')
    exc = exception_values('InvalidValue', 'InvalidType', 'NotEnoughData')
    n = 0
    for k in sorted(model.repo_classes(), key=lambda x: x.construct):
        if not k.is_subclass_of(root.name) or k.abstract_methods:
            continue
        fp, fc, fn = k.resolve('_parse'), k.resolve('compose'), k.resolve('get_canonical_name')
        if fp is None or fc is None or fn is None or fn.abstract:
            continue
        is_b64 = k.is_subclass_of('FieldValueComponentStringBase64')
        samples = [B64(b'pin-sha256'), B64(bytes(range(250, 256)) * 5 + b'\x00'), B64(b'')] if is_b64 else ['abc', 'a b', 'https://a.example/r?x=1']
        report.touch(fp)
        report.touch(fc)

        def extra(node, ev, k=k):
            d = ast.unparse(node.func)
            if d == 'ComposerText':
                return Composer()
            if d == 'ParserText':
                return TextParser(ev.ev(node.args[0]))
            if d == 'Base64Data':
                return B64(ev.ev(node.args[0]))
            if d in ('cls', k.name) and len(node.args) == 1 and not node.keywords:
                return ('made', ev.ev(node.args[0]))
            return exc(node, ev)

        class Me(Native):
            _repo_class = k

            def __init__(self, value):
                self.value = value

        class Cls(Native):
            _repo_class = k
        hook = class_call_hook(k, extra, model)
        problems = {}
        try:
            for value in samples:
                composed = Evaluator({'self': Me(value)}, hook, hook.name_hook_for(fc.module, None)).function(fc.node)
                composed = bytes(composed)
                if b'"' not in composed:
                    continue        # not written quoted: nothing to compare
                spellings = [('composed', composed), ('unquoted', composed.replace(b'"', b''))]
                if (not is_b64 and b' ' in composed) or b'""' in composed:
                    spellings = spellings[:1]       # a value with a space and the empty value have no unquoted spelling (a token is not empty)
                for kind, text in spellings:
                    n += 1
                    try:
                        got = Evaluator({'cls': Cls(), 'parsable': text}, hook, hook.name_hook_for(fp.module, None)).function(fp.node)
                    except Raised as e:
                        problems.setdefault(kind, 'the %s spelling %r of %r is refused (%s)' % (kind, text, value, e.what[:50]))
                        continue
                    obj = got[0] if isinstance(got, tuple) and got else got
                    val = obj[1] if isinstance(obj, tuple) and len(obj) == 2 and obj[0] == 'made' else obj
                    if val != value:
                        problems.setdefault(kind, 'the %s spelling %r of %r is read as %r' % (kind, text, value, val))
                    elif isinstance(got, tuple) and len(got) == 2 and got[1] != len(text):
                        problems.setdefault(kind + '-length', 'the %s spelling %r is reported %r characters long' % (kind, text, got[1]))
        except (Unsupported, Raised) as e:
            report.undecided.append('%s: %s left the subset the evaluation understands (%s)' % (RULE, k.name, e))
            continue
        for kind, text in sorted(problems.items()):
            report.add(RULE, '%s@quoted[%s]' % (k.construct, kind), text + ': optional quoting changes what is parsed, or the class does not accept what it writes')
    report.count(RULE, n)
    report.floor(RULE, 10, 'spellings of quoted components')


# ---- R13: JSON valued header fields -------------------------------------------------------------------------------------------------

def json_fields_composer(ctx, report, RULE='C18.R13'):
    """A JSON valued header field (NEL) is composed as the object of its members.  The canonical spelling has to be one of the
    spellings that parse back to the same object, so every member the object holds is written - ``false``, ``0`` and ``""`` are
    values, not absences; only a member that is None has no textual form.  ``compose`` of every concrete FieldsJson class is
    evaluated (sa.miniexec: attrs field table and validators modelled from the class body, json.dumps real) for objects whose
    members are all False, all 0, all 'x', and with the optional members None: the text must hold exactly the members that are not
    None, with the values held."""
    import collections
    import json as _json
    from ..miniexec import ClassRef, Evaluator, Native, Obj, Raised, Unsupported, class_call_hook
    model = ctx.model
    report.rule(RULE, 'JSON valued fields: the composer writes every member that is not None with the value held (false / 0 are values)')
    base = model.try_cls('FieldsJson')
    if base is None:
        report.error('%s: FieldsJson not found' % RULE)
        return

    class Optional(Native):
        def __init__(self, inner):
            self.validator = inner

    def component_class(node):
        names = [n for n in ast.walk(node) if isinstance(n, ast.Call) and ast.unparse(n.func).endswith('instance_of') and n.args]
        k = model.try_cls(ast.unparse(names[0].args[0])) if names else None
        return k
    n = 0
    for c in model.all_subclasses(base):
        if c is base or c.abstract_methods or not c.has_attrs():
            continue
        f = c.resolve('compose')
        if f is None:
            continue
        report.touch(f)
        fields = []
        for fld in c.attrs_fields():
            if fld.validator_node is None:
                fields = None
                break
            k = component_class(fld.validator_node)
            if k is None:
                fields = None
                break
            fields.append((fld.name, k, 'optional' in ast.unparse(fld.validator_node)))
        if not fields:
            report.undecided.append('%s: field table of %s not readable' % (RULE, c.name))
            continue
        table = collections.OrderedDict()
        for name, k, optional in fields:
            inner = Obj(type=ClassRef(k))
            table[name] = Obj(name=name, validator=Optional(inner) if optional else inner, default=None)

        def extra(node, ev, table=table):
            d = ast.unparse(node.func)
            if d in ('attr.fields_dict', 'attr.fields'):
                return table if d.endswith('_dict') else tuple(table.values())
            if d == 'is_validator_optional':
                return isinstance(ev.ev(node.args[0]), Optional)
            if d == 'json.dumps':
                return _json.dumps(ev.ev(node.args[0]))
            if d in ('collections.OrderedDict', 'OrderedDict', 'dict'):
                return collections.OrderedDict(*[ev.ev(a) for a in node.args])
            if d == 'type' and len(node.args) == 1 and isinstance(node.args[0], ast.Name) and node.args[0].id == 'self':
                return ClassRef(c)
            return NotImplemented
        hook = class_call_hook(c, extra, model)
        names_hook = hook.name_hook_for(f.module, None)
        try:
            canonical = {name: Evaluator({'cls': ClassRef(k)}, class_call_hook(k, None, model), class_call_hook(k, None, model).name_hook_for(k.module, None)).function(
                k.resolve('get_canonical_name').node) for name, k, _ in fields}
        except (Unsupported, Raised, AttributeError, TypeError) as e:
            report.undecided.append('%s: canonical names of %s not evaluable: %s' % (RULE, c.name, e))
            continue
        for sample in (False, 0, 'x', True):
            for drop_optional in (False, True):
                n += 1
                report.count(RULE)

                class Me(Native):
                    _repo_class = c
                me = Me()
                held = collections.OrderedDict()
                for name, k, optional in fields:
                    if optional and drop_optional:
                        setattr(me, name, None)
                        continue
                    comp = Obj(value=sample, _get_value_as_simple_type=lambda sample=sample: sample)
                    setattr(me, name, comp)
                    held[canonical[name]] = sample
                try:
                    out = Evaluator({'self': me}, hook, names_hook).function(f.node)
                    got = _json.loads(out.decode('ascii') if isinstance(out, (bytes, bytearray)) else out, object_pairs_hook=collections.OrderedDict)
                except (Unsupported, Raised, AttributeError, TypeError, ValueError) as e:
                    report.undecided.append('%s: compose of %s not evaluable: %s' % (RULE, c.name, str(e)[:80]))
                    break
                if list(got.items()) != list(held.items()):
                    missing = [k_ for k_ in held if k_ not in got]
                    report.add(RULE, '%s@members[%s]' % (f.construct, 'omitted' if missing else 'differ'),
                               '%s whose members all hold %r%s composes %s, the members held are %s: %s' % (
                                   c.name, sample, ' (optional ones None)' if drop_optional else '', dict(got), dict(held),
                                   'a member that holds a value is left out and parses back as None' if missing else 'the text is not the object'))
                    break
            else:
                continue
            break
    report.floor(RULE, 6, 'evaluated objects of JSON valued fields')
