"""C14 -- JSON and Markdown output is always well-formed, deterministic and faithful (determinism/dispatch clauses)."""
from __future__ import annotations

import ast
import os

from ..model import ClassInfo, dotted
from ..trace import Effect, Op, Try, walk
from ..values import ClassV, FieldV

META = {
    'explanation': (
        'R1 ordered iteration: in the serialiser (Serializable and every _asdict/_as_markdown/host_key_asdict override) an '
        'iteration over a value that may be a set/frozenset (a branch guarded by isinstance(.., (.., set, frozenset, ..)), or an '
        'attribute that the parser fills with parse_numeric_flags) must go through sorted(); plain dict iteration must go '
        'through sorted keys. R2: no serialiser function (all of Serializable, the text encoders, every _asdict/_as_markdown/'
        'as_json/as_markdown/__str__ override) stores to an attribute of a class object or declares a global. R3 total dispatch: _json_result/_json_traverse/_markdown_result end in an '
        'unconditional default branch, the JSONEncoder.default hook is installed at import time and dictionary keys are '
        'mapped to str/number on every branch. R4: every _asdict override returns a value on every path.'
        ' R2 is now: no serialiser function stores to class-level or module-level state. R5: format templates are literals. R6: foreign value types are rendered as text before the generic __dict__ branch; no mapping built from repeated keys; a time delta is rendered whole.'),
    'assumptions': ['json.dumps calls JSONEncoder.default for objects it cannot serialise natively'],
    'trusted_base': ['python ast', 'sa.interp (R2 effects, set typed attributes)'],
    'exhaustive': True,
}

META['explanation'] += ' ' + 'R7: serialiser functions apply no strict text codec to field values. R8: serialisers store nothing into the rendered object (effect analysis of C13.R1 on the serialiser entry points).'
META['explanation'] += ' ' + 'R10: float valued fields refuse NaN / infinities (their __attrs_post_init__ evaluated). R11: every return of the Markdown functions is a Markdown result or a (flag, text) pair (def-use analysis of text). R12: a list display is not concatenated with a field validated by deep_iterable only. R13: _json_result / _markdown_result evaluated with the real datetime type on pairs of equal leaf values.'

META['explanation'] += ' ' + 'R14: native value of an OPTIONAL ASN.1 field tested before use (field tables read from asn1crypto). R15: modulus / prime of a parsed RSA / DSA key refused unless positive (abstract run; syntactic reading where the run does not reach). R16: text of parameter objects against null fields of the data tables. R17: rendering calls no parse entry point. R18: parsable classes with a plain initialiser have a rendering.'

META['explanation'] += ' ' + 'R19: optional parts of a urllib3 Url are tested before they are sliced, concatenated or measured (field list read from the dependency). R20: explicit __eq__ / __hash__ compare the attributes as held. R21: hand written renderings evaluated on objects built with the constructor defaults.'
META['explanation'] += ' ' + 'R22: renderings show every item of a stored sequence (shared with C10.R16).'

SET_NAMES = {'set', 'frozenset'}


def mentions_set(test):
    for n in ast.walk(test):
        if isinstance(n, ast.Call) and isinstance(n.func, ast.Name) and n.func.id == 'isinstance' and len(n.args) == 2:
            names = {x.id for x in ast.walk(n.args[1]) if isinstance(x, ast.Name)}
            if names & SET_NAMES:
                return ast.unparse(n.args[0])
    return None


def set_arms(node):
    """the arms of the ``if`` a set typed value can reach: the body for ``isinstance(x, (set, frozenset))``, the else arm for
    its negation, both when the test combines it with other conditions"""
    def polarity(t, neg):
        if isinstance(t, ast.UnaryOp) and isinstance(t.op, ast.Not):
            return polarity(t.operand, not neg)
        if isinstance(t, ast.Call) and mentions_set(t) is not None:
            return 'neg' if neg else 'pos'
        return None
    p = polarity(node.test, False)
    if p == 'pos':
        return [node.body]
    if p == 'neg':
        return [node.orelse]
    return [node.body, node.orelse]


def iterations_over(stmts, var):
    """(node, sorted?) for every for-loop / comprehension / enumerate() over ``var`` in the statements"""
    out = []
    for st in stmts:
        for n in ast.walk(st):
            its = []
            if isinstance(n, ast.For):
                its.append(n.iter)
            elif isinstance(n, (ast.ListComp, ast.SetComp, ast.GeneratorExp, ast.DictComp)):
                its.extend(g.iter for g in n.generators)
            for it in its:
                src = ast.unparse(it)
                inner = it
                while isinstance(inner, ast.Call) and isinstance(inner.func, ast.Name) and inner.func.id in ('enumerate', 'list', 'tuple', 'iter', 'reversed') and inner.args:
                    inner = inner.args[0]
                if ast.unparse(inner) == var:
                    out.append((n, False))
                elif isinstance(inner, ast.Call) and isinstance(inner.func, ast.Name) and inner.func.id == 'sorted' and inner.args and ast.unparse(inner.args[0]) == var:
                    out.append((n, True))
    return out


def total_dispatch(body):
    def assigned(stmts, name):
        for st in stmts:
            if isinstance(st, (ast.Assign, ast.AugAssign, ast.AnnAssign)):
                tg = st.targets if isinstance(st, ast.Assign) else [st.target]
                if any(isinstance(t, ast.Name) and t.id == name for t in tg):
                    return True
            if isinstance(st, ast.If) and assigned(st.body, name) and assigned(st.orelse, name):
                return True
            if isinstance(st, ast.Try) and assigned(st.body + st.orelse, name) and all(assigned(h.body, name) or exits(h.body, []) for h in st.handlers):
                return True
            if isinstance(st, (ast.Return, ast.Raise)):
                return True      # paths that leave earlier do not reach the return in question
        return False

    def exits(stmts, before):
        for i, st in enumerate(stmts):
            if isinstance(st, ast.Raise):
                return True
            if isinstance(st, ast.Return):
                if st.value is None:
                    return False
                if isinstance(st.value, ast.Name) and not assigned(before + stmts[:i], st.value.id):
                    return False
                return True
            if isinstance(st, ast.If) and exits(st.body, before + stmts[:i]) and exits(st.orelse, before + stmts[:i]):
                return True
            if isinstance(st, ast.Try) and exits(st.body + st.orelse, before + stmts[:i]) and all(exits(h.body, before + stmts[:i]) for h in st.handlers):
                return True
        return False
    return exits(list(body), [])


def class_state_stores(f, model):
    """stores (assign / augmented assign / delete / setattr / delattr) whose target is an attribute of a class object:
    ``cls.x``, ``type(self).x``, ``self.__class__.x``, ``<RepoClass>.x``; and global / nonlocal declarations"""
    out = []
    first = f.node.args.args[0].arg if f.node.args.args else None
    is_cls = first == 'cls' or any(isinstance(d, ast.Name) and d.id == 'classmethod' for d in f.node.decorator_list)

    def class_expr(e):
        if isinstance(e, ast.Name):
            if is_cls and e.id == first:
                return True
            r = model.resolve_name(f.module, e.id)
            return isinstance(r, ClassInfo)
        if isinstance(e, ast.Call) and isinstance(e.func, ast.Name) and e.func.id == 'type' and len(e.args) == 1:
            return True
        if isinstance(e, ast.Attribute) and e.attr == '__class__':
            return True
        return False

    def target(t):
        if isinstance(t, (ast.Tuple, ast.List)):
            for x in t.elts:
                target(x)
        elif isinstance(t, ast.Starred):
            target(t.value)
        elif isinstance(t, ast.Attribute) and class_expr(t.value):
            out.append((ast.unparse(t), t))
        elif isinstance(t, ast.Subscript):
            b = t.value
            while isinstance(b, ast.Subscript):
                b = b.value
            if isinstance(b, ast.Attribute) and class_expr(b.value):
                out.append((ast.unparse(t), t))
    for n in ast.walk(f.node):
        if isinstance(n, ast.Assign):
            for t in n.targets:
                target(t)
        elif isinstance(n, (ast.AugAssign, ast.AnnAssign)):
            target(n.target)
        elif isinstance(n, ast.Delete):
            for t in n.targets:
                target(t)
        elif isinstance(n, (ast.Global, ast.Nonlocal)):
            out.append(('global ' + ','.join(n.names), n))
        elif isinstance(n, ast.Call) and isinstance(n.func, ast.Name) and n.func.id in ('setattr', 'delattr') and n.args and class_expr(n.args[0]):
            out.append((ast.unparse(n), n))
    return out


def check(ctx, report):
    # a rendering shows every item the object holds: two objects that differ in a repeated item do not render alike; rule shared with C10.R16
    from .c10 import no_item_collapse
    no_item_collapse(ctx, report, RULE='C14.R22',
                     title='renderings (_asdict, __str__, as_json / as_markdown helpers) show every item of a stored sequence: no de-duplication on the way')
    model = ctx.model
    report.rule('C14.R1', 'no iteration over a possibly set typed value without sorted()')
    report.rule('C14.R2', 'no serialiser function stores to class level or module level state')
    report.rule('C14.R3', 'total dispatch; encoder hook installed; keys mapped')
    report.rule('C14.R4', '_asdict overrides return on every path')
    ser = model.cls('Serializable')
    # ---- R1 in Serializable: branches whose guard admits sets; callee taking the value as ``obj`` is followed one level
    for name, f in ser.methods.items():
        report.touch(f)
        for n in ast.walk(f.node):
            if not isinstance(n, ast.If):
                continue
            var = mentions_set(n.test)
            if var is None:
                continue
            report.count('C14.R1')
            body = [st for arm in set_arms(n) for st in arm]
            for it, is_sorted in iterations_over(body, var):
                if not is_sorted:
                    report.add('C14.R1', '%s@iterate[%s]' % (f.construct, var),
                               'a set/frozenset reaching this branch is iterated in hash order: equal objects can serialise differently')
            # the value handed on to a helper of the same class
            for c in ast.walk(ast.Module(body=body, type_ignores=[])):
                if isinstance(c, ast.Call) and isinstance(c.func, ast.Attribute) and c.args and ast.unparse(c.args[0]) == var:
                    g = ser.methods.get(c.func.attr)
                    if g is None or g is f:
                        continue
                    p0 = g.params[1] if g.kind in ('classmethod', 'method') and len(g.params) > 1 else (g.params[0] if g.params else None)
                    if p0 is None:
                        continue
                    for it, is_sorted in iterations_over(g.node.body, p0):
                        if not is_sorted:
                            report.add('C14.R1', '%s@iterate[%s]' % (g.construct, p0),
                                       'a set/frozenset handed over from %s is iterated in hash order' % f.qualname)
    # dict branch must sort keys
    god = ser.methods.get('_get_ordered_dict')
    if god is None:
        report.error('C14.R1: Serializable._get_ordered_dict vanished')
    else:
        report.count('C14.R1')
        for n in ast.walk(god.node):
            if isinstance(n, ast.If) and 'isinstance(dict_value, dict)' in ast.unparse(n.test):
                assigns = [s for s in ast.walk(ast.Module(body=n.body, type_ignores=[])) if isinstance(s, ast.Assign) and ast.unparse(s.targets[0]) == 'keys']
                def sorted_value(e, depth=0):
                    # sorted(...) itself, or a helper of the class all of whose returns are
                    if isinstance(e, ast.Call) and isinstance(e.func, ast.Name) and e.func.id == 'sorted':
                        return True
                    if isinstance(e, ast.Call) and isinstance(e.func, ast.Attribute) and depth < 3:
                        h = ser.resolve(e.func.attr)
                        if h is not None and not h.module.external:
                            from ..astutil import returned
                            rets = list(returned(h.node))
                            return bool(rets) and all(sorted_value(r, depth + 1) for r in rets)
                    return 'sorted(' in ast.unparse(e) and depth == 0 and not isinstance(e, ast.Call)
                if not assigns or not all(sorted_value(a.value) or 'sorted(' in ast.unparse(a.value) for a in assigns):
                    report.add('C14.R1', god.construct + '@dict-keys', 'keys of a plain dict are not sorted')
    # set typed attributes iterated by overrides
    set_attrs = {}
    for c in model.concrete_parsables():
        res = ctx.canon.layout(c, 'parse').result
        from ..compare import parse_bindings
        binds = parse_bindings(res, c, model)
        for n in walk(res.block):
            if isinstance(n, Op) and n.prim == 'parse_numeric_flags' and n.target is not None and isinstance(n.key, str):
                for attr, _ in binds.get((id(n.target), n.key), []):
                    set_attrs.setdefault(c, set()).add(attr)
    for c in model.repo_classes():
        for name in ('_asdict', '_as_markdown', 'host_key_asdict', '__str__'):
            f = c.methods.get(name)
            if f is None:
                continue
            report.count('C14.R1')
            attrs = set()
            for k in c.mro:
                attrs |= set_attrs.get(k, set()) if isinstance(k, ClassInfo) else set()
            for a in attrs:
                for it, is_sorted in iterations_over(f.node.body, 'self.' + a):
                    if not is_sorted:
                        report.add('C14.R1', '%s@iterate[self.%s]' % (f.construct, a), 'flag set iterated in hash order')
    # ---- R2: no serialiser function writes class level or module level state (save/swap/restore of a class attribute
    # pins the attribute on the subclass and is not re-entrant: rendering must be a pure function of the object and of
    # the encoder the user installed)
    ser_funcs = []
    for c in model.repo_classes():
        for name, f in c.methods.items():
            if f.abstract:
                continue
            if c is ser or c.name.startswith('SerializableTextEncoder') or name in (
                    '_asdict', '_as_markdown', 'as_json', 'as_markdown', 'host_key_asdict', '__str__', '__repr__'):
                ser_funcs.append((c, f))
    for c, f in ser_funcs:
        report.count('C14.R2')
        report.touch(f)
        for what, node in class_state_stores(f, model):
            report.add('C14.R2', '%s@store[%s]' % (f.construct, what),
                       'serialiser function writes shared (class or module level) state %s: the rendering of later objects depends on '
                       'what was serialised before' % what)
    # ---- R3
    for name in ('_json_result', '_json_traverse', '_markdown_result'):
        f = ser.methods.get(name)
        report.count('C14.R3')
        if f is None:
            report.error('C14.R3: Serializable.%s vanished' % name)
            continue
        chain = [s for s in f.node.body if isinstance(s, ast.If)]
        if not chain:
            report.add('C14.R3', f.construct + '@dispatch', 'no dispatch chain')
            continue
        # total: every path through the function ends in ``return <value>`` (or a raise), and a returned local is assigned on
        # every path that reaches the return - whether the dispatch is an if / elif / else chain or a row of guard clauses
        if not total_dispatch(f.node.body):
            report.add('C14.R3', f.construct + '@default', 'dispatch chain has no unconditional default branch: some value type has no rendering')
    bm = model.modules.get('cryptoparser.common.base')
    report.count('C14.R3')
    installed = any(isinstance(s, ast.Assign) and ast.unparse(s.targets[0]) == 'json.JSONEncoder.default' for s in bm.tree.body)
    if not installed:
        report.add('C14.R3', bm.relpath + '@encoder-hook', 'json.JSONEncoder.default is not replaced at import time')
    jt = ser.methods.get('_json_traverse')
    if jt is not None:
        report.count('C14.R3')
        dcs = [n for n in ast.walk(jt.node) if isinstance(n, (ast.ListComp, ast.DictComp)) and 'items()' in ast.unparse(n)]

        def key_text(n):
            # the comprehension, with the bodies of the Serializable helpers it calls appended (key mapping moved into a helper)
            txt = ast.unparse(n)
            for c2 in ast.walk(n):
                if isinstance(c2, ast.Call) and isinstance(c2.func, ast.Attribute) and c2.func.attr in ser.methods and c2.func.attr != jt.name:
                    h = ser.methods[c2.func.attr].node
                    params = [a.arg for a in h.args.args if a.arg not in ('self', 'cls')]
                    body = ast.unparse(h)
                    if params and c2.args and isinstance(c2.args[0], ast.Name):
                        import re as _re
                        body = _re.sub(r'\b%s\b' % _re.escape(params[0]), c2.args[0].id, body)
                    txt += ' ' + body
            return txt
        ok = any('key.name' in key_text(n) and '_json_result(key)' in key_text(n) for n in dcs)
        if not ok:
            report.add('C14.R3', jt.construct + '@keys', 'dictionary keys are not mapped through key.name / _json_result on every branch')
    # ---- R3b: a time delta is rendered whole (``.seconds`` alone drops the days, ``.days`` alone drops the rest)
    for c, f in ser_funcs:
        reads = {n.attr for n in ast.walk(f.node) if isinstance(n, ast.Attribute) and n.attr in ('seconds', 'days', 'microseconds')
                 and not (isinstance(n.value, ast.Name) and n.value.id in ('datetime', 'self', 'cls'))}
        if reads:
            report.count('C14.R3')
            if 'seconds' in reads and 'days' not in reads or reads == {'days'}:
                report.add('C14.R3', f.construct + '@timedelta[%s]' % ','.join(sorted(reads)),
                           'a time delta is rendered from .%s only: the other components are dropped (use total_seconds())' % ','.join(sorted(reads)))
    # ---- R5: data never becomes a format template (a field name or value containing { } % must not be interpreted)
    report.rule('C14.R5', 'format templates of the serialiser are literals: data is only ever an argument of str.format / %')
    for c, f in ser_funcs:
        for n in ast.walk(f.node):
            tmpl = None
            if isinstance(n, ast.Call) and isinstance(n.func, ast.Attribute) and n.func.attr in ('format', 'format_map'):
                tmpl = n.func.value
            elif isinstance(n, ast.BinOp) and isinstance(n.op, ast.Mod) and not isinstance(n.left, (ast.Constant, ast.Name, ast.Attribute, ast.Call, ast.BinOp)):
                tmpl = None
            elif isinstance(n, ast.BinOp) and isinstance(n.op, ast.Mod) and isinstance(n.right, (ast.Tuple, ast.Dict)):
                tmpl = n.left
            if tmpl is None:
                continue
            report.count('C14.R5')
            if not literal_template(tmpl, f.node) and not class_constant_template(model, c, tmpl):
                report.add('C14.R5', '%s@template[%s]' % (f.construct, ast.unparse(tmpl)[:40]),
                           'the format template %s is built at run time: a name or value containing braces (or %%) is interpreted as a replacement '
                           'field and makes the serialisation fail' % ast.unparse(tmpl)[:60])
    # ---- R6: sibling agreement of the two dispatch chains: the types Markdown prints with str() have a str() branch in the
    # JSON traversal *before* its generic __dict__ fallback (the instance dictionary of library objects holds whatever
    # cached properties happen to have been read: equal objects would render differently)
    report.rule('C14.R6', 'JSON traversal: foreign value types are rendered as text before the generic __dict__ branch; no mapping built from repeated keys')
    jt = ser.methods.get('_json_traverse')
    report.count('C14.R6')
    if jt is not None:
        tests = []
        for n in ast.walk(jt.node):
            if isinstance(n, ast.If):
                tests.append((n.lineno, ast.unparse(n.test)))
        tests.sort()
        texts = [t for _, t in tests]
        dict_at = next((i for i, t in enumerate(texts) if "'__dict__'" in t), None)
        str_at = next((i for i, t in enumerate(texts) if '_MARKDOWN_RESULT_STRING_CLASSES' in t or 'ipaddress' in t), None)
        if dict_at is not None and (str_at is None or str_at > dict_at):
            report.add('C14.R6', jt.construct + '@foreign-objects',
                       'address / URL objects reach the generic __dict__ branch of the JSON traversal: their instance dictionary depends on which '
                       'cached properties were read before, so equal objects render differently (Markdown prints them with str())')
    # a mapping built from (key, value) pairs collected in a loop over a list attribute loses every item whose key repeats
    for c, f in ser_funcs:
        if f.name != '_asdict':
            continue
        for n in ast.walk(f.node):
            if isinstance(n, ast.Call) and ast.unparse(n.func).split('.')[-1] in ('OrderedDict', 'dict') and len(n.args) == 1 and isinstance(n.args[0], ast.Name):
                var = n.args[0].id
                loops = [lp for lp in ast.walk(f.node) if isinstance(lp, ast.For) and ast.unparse(lp.iter).startswith('self.') and
                         any(isinstance(x, ast.Call) and isinstance(x.func, ast.Attribute) and x.func.attr == 'append' and
                             isinstance(x.func.value, ast.Name) and x.func.value.id == var for x in ast.walk(lp))]
                if loops:
                    report.count('C14.R6')
                    report.add('C14.R6', '%s@mapping[%s]' % (f.construct, var),
                               'the items of %s are rendered as a mapping keyed by their kind: two items of the same kind collapse into one '
                               '(the rendering silently drops data)' % ast.unparse(loops[0].iter))
    from .c16 import hex_rendering
    hex_rendering(ctx, report, rule='C14.R3')
    # ---- R8: a rendering that stores into the rendered object (or into a shared enum member value) makes the next rendering
    # depend on the ones before it; decided with the effect analysis of C13.R1 restricted to the serialiser entry points
    from .c13 import observers_pure
    # ---- R9: Serializable._get_ordered_dict keeps the order of an OrderedDict and *sorts* the keys of a plain dict, while the two
    # compare equal whatever their order: a mapping valued field that admits a plain dict makes equal objects (one parsed, one
    # built by hand; one before and one after a round trip) render differently
    report.rule('C14.R9', 'mapping valued fields of rendered classes are ordered mappings (a plain dict is rendered sorted, an equal OrderedDict in wire order)')
    n9 = 0
    for k in model.repo_classes():
        if not k.is_subclass_of('Serializable') or not k.has_attrs():
            continue
        for fld in k.own_fields:
            v = fld.validator_node
            d = fld.default_node
            texts = [ast.unparse(x) for x in (v, d) if x is not None]
            if not any('dict' in t.lower() for t in texts):
                continue
            n9 += 1
            report.count('C14.R9')
            plain = False
            for x in (v, d):
                if x is None:
                    continue
                for call in [y for y in ast.walk(x) if isinstance(y, ast.Call) and ast.unparse(y.func).split('.')[-1] in ('instance_of', 'Factory')]:
                    args = call.args[0].elts if call.args and isinstance(call.args[0], ast.Tuple) else call.args[:1]
                    if any(isinstance(a, ast.Name) and a.id == 'dict' for a in args):
                        plain = True
            if plain and v is not None and 'instance_of' in ast.unparse(v):
                report.add('C14.R9', '%s@mapping[%s]' % (k.construct, fld.name),
                           '%s.%s admits a plain dict: the serialiser renders its keys sorted, while an equal OrderedDict (what a caller builds, '
                           'or what an earlier version parsed) is rendered in insertion order - equal objects give different JSON / Markdown' % (k.name, fld.name))
    if n9 < 1:
        report.error('C14.R9: no mapping valued field of a rendered class found (anchor moved)')
    report.rule('C14.R8', 'serialisers store nothing into the rendered object: output does not depend on earlier renderings')
    observers_pure(ctx, report, RULE='C14.R8', names=['_asdict', 'as_json', '_as_markdown', 'as_markdown', '__str__', 'host_key_asdict',
                                                     '_markdown_result', '_markdown_result_complex', '_markdown_human_readable_names',
                                                     '_markdown_result_list', '_json_traverse', '_json_result', '_get_ordered_dict'])
    report.floor('C14.R8', 50, 'serialiser definitions')
    # ---- R7: rendering never runs a partial codec over field values (a strict encode / decode of data raises for some values:
    # the idna codec rejects empty and over-long labels, ascii rejects non-ASCII text)
    report.rule('C14.R7', 'serialiser functions apply no strict text codec to field values')
    for c, f in ser_funcs:
        if f.name not in ('_asdict', '_as_markdown', 'as_json', 'as_markdown', 'host_key_asdict', '__str__', '__repr__') and c is not ser:
            continue
        for n in ast.walk(f.node):
            if not isinstance(n, ast.Call):
                continue
            fn = ast.unparse(n.func)
            codec = None
            if fn.endswith(('.encode', '.decode')) and not isinstance(n.func.value, ast.Constant):
                args = [a.value for a in n.args if isinstance(a, ast.Constant)] + [k.value.value for k in n.keywords if isinstance(k.value, ast.Constant)]
                lenient = any(a in ('ignore', 'replace', 'backslashreplace', 'xmlcharrefreplace') for a in args)
                codec = None if lenient else (args[0] if args else 'utf-8')
                if codec in ('utf-8', 'utf8') and fn.endswith('.encode'):
                    codec = None            # every str encodes to UTF-8
            elif fn in ('six.ensure_binary', 'six.ensure_text', 'six.ensure_str') and len(n.args) >= 2 and isinstance(n.args[1], ast.Constant):
                lenient = len(n.args) > 2 and isinstance(n.args[2], ast.Constant) and n.args[2].value in ('ignore', 'replace')
                codec = None if lenient else n.args[1].value
                src = n.args[0]
                if isinstance(src, ast.Call) and 'b64encode' in ast.unparse(src.func) or isinstance(src, ast.Call) and 'hexlify' in ast.unparse(src.func):
                    codec = None            # base64 / hex digits are ASCII by construction
            if codec is None:
                continue
            report.count('C14.R7')
            report.add('C14.R7', '%s@codec[%s]' % (f.construct, codec),
                       '%s applies the strict %r codec to a field value while rendering: values the parser and the validators accept (empty or over-long '
                       'labels, non-ASCII text) make the serialisation raise' % (ast.unparse(n)[:60], codec))
    report.count('C14.R7', len(ser_funcs), nontrivial=0)
    # ---- R4
    for c in model.repo_classes():
        f = c.methods.get('_asdict')
        if f is None:
            continue
        report.count('C14.R4')
        last = f.node.body[-1]
        if not isinstance(last, ast.Return) or last.value is None:
            report.add('C14.R4', f.construct + '@return', '_asdict can fall off its end (returns None)')
    finite_numbers(ctx, report)
    markdown_yields_text(ctx, report)
    list_concatenation(ctx, report)
    equal_values_render_equal(ctx, report)
    absent_optional_fields(ctx, report)
    key_sizes_defined(ctx, report)
    code_point_texts(ctx, report)
    rendering_parses_nothing(ctx, report)
    plain_classes_render(ctx, report)
    optional_url_parts(ctx, report)
    equality_on_rendered_values(ctx, report)
    plain_class_rendering_evaluated(ctx, report)
    report.floor('C14.R1', 20, 'iteration obligations')
    report.floor('C14.R4', 15, '_asdict overrides')


def class_constant_template(model, c, t):
    """``self.NAME`` / ``cls.NAME`` / ``Class.NAME`` where every binding of NAME in the class bodies of the family of ``c`` (its
    bases, the class, its subclasses) is a string literal: the template is a constant of the source, chosen by the class"""
    table = False
    if isinstance(t, ast.Subscript) and isinstance(t.value, ast.Attribute):
        # ``self.TABLE[key]`` / ``self.TABLE.get(key)``: every value of the class level mapping (or item of the tuple) is a literal
        t, table = t.value, True
    elif isinstance(t, ast.Call) and isinstance(t.func, ast.Attribute) and t.func.attr == 'get' and isinstance(t.func.value, ast.Attribute) and \
            len(t.args) == 1 and not t.keywords:
        t, table = t.func.value, True
    if not (isinstance(t, ast.Attribute) and isinstance(t.value, ast.Name) and c is not None):
        return False
    if t.value.id not in ('self', 'cls') and model.try_cls(t.value.id) is None:
        return False
    family = [k for k in c.mro if isinstance(k, ClassInfo)] + [k for k in model.repo_classes() if k.is_subclass_of(c.name)]
    binds = [k.class_vars[t.attr] for k in family if t.attr in k.class_vars]
    if table:
        def literal_items(b):
            items = b.values if isinstance(b, ast.Dict) else b.elts if isinstance(b, (ast.Tuple, ast.List)) else None
            return bool(items) and all(isinstance(x, ast.Constant) and isinstance(x.value, str) for x in items)
        return bool(binds) and all(literal_items(b) for b in binds)
    # None stands for "no template" (formatting None is an AttributeError, not an interpretation of data)
    return any(isinstance(b, ast.Constant) and isinstance(b.value, str) for b in binds) and \
        all(isinstance(b, ast.Constant) and (isinstance(b.value, str) or b.value is None) for b in binds)


def literal_template(t, fnode, depth=0):
    """is every value the template expression can take a string literal of the source?  a literal, a conditional expression
    / ``or`` of literal templates, a local name all of whose bindings in the function are literal templates"""
    if isinstance(t, ast.Constant):
        return isinstance(t.value, str)
    if isinstance(t, ast.IfExp):
        return literal_template(t.body, fnode, depth) and literal_template(t.orelse, fnode, depth)
    if isinstance(t, ast.BoolOp):
        return all(literal_template(v, fnode, depth) for v in t.values)
    if isinstance(t, ast.Name) and depth < 4:
        binds, other = [], False
        for n in ast.walk(fnode):
            if isinstance(n, ast.Assign):
                for tg in n.targets:
                    if isinstance(tg, ast.Name) and tg.id == t.id:
                        binds.append(n.value)
                    elif any(isinstance(x, ast.Name) and x.id == t.id for x in ast.walk(tg)):
                        other = True
            elif isinstance(n, (ast.AugAssign, ast.AnnAssign)) and isinstance(n.target, ast.Name) and n.target.id == t.id:
                other = True
            elif isinstance(n, (ast.For, ast.comprehension)) and any(isinstance(x, ast.Name) and x.id == t.id for x in ast.walk(n.target)):
                other = True
            elif isinstance(n, ast.arg) and n.arg == t.id:
                other = True
            elif isinstance(n, (ast.With, ast.ExceptHandler, ast.NamedExpr)) and t.id in ast.unparse(n).split(' as ')[-1][:40] and isinstance(n, ast.ExceptHandler) and n.name == t.id:
                other = True
        return bool(binds) and not other and all(literal_template(b, fnode, depth + 1) for b in binds)
    return False


# ---- R10: floating point fields hold numbers JSON can express ----------------------------------------------------------------

def asn1_optional_fields():
    """{structure name: {field: (type name, optional?)}} of asn1crypto's X.509 module, read from its ``_fields`` tables"""
    from ..model import find_dependency
    dep = find_dependency('asn1crypto')
    if dep is None:
        return None
    out = {}
    with open(os.path.join(dep, 'x509.py')) as f:
        tree = ast.parse(f.read())
    for c in tree.body:
        if not isinstance(c, ast.ClassDef):
            continue
        for st in c.body:
            if isinstance(st, ast.Assign) and len(st.targets) == 1 and isinstance(st.targets[0], ast.Name) and st.targets[0].id == '_fields' and \
                    isinstance(st.value, ast.List):
                fields = {}
                for e in st.value.elts:
                    if isinstance(e, ast.Tuple) and len(e.elts) >= 2 and isinstance(e.elts[0], ast.Constant):
                        opt = False
                        if len(e.elts) >= 3 and isinstance(e.elts[2], ast.Dict):
                            for k, v in zip(e.elts[2].keys, e.elts[2].values):
                                if isinstance(k, ast.Constant) and k.value == 'optional' and isinstance(v, ast.Constant) and v.value is True:
                                    opt = True
                        fields[e.elts[0].value] = (ast.unparse(e.elts[1]), opt)
                out[c.name] = fields
    return out


def optional_field_read(expr, tables, roots):
    """``<root>['a']['b'].native`` where the last key is an OPTIONAL field of the structure the chain reaches from the root
    structure: the name of the field, else None.  ``.native`` of an absent optional field is None (asn1crypto: Void)"""
    if not (isinstance(expr, ast.Attribute) and expr.attr == 'native'):
        return None
    keys, cur = [], expr.value
    while isinstance(cur, ast.Subscript) and isinstance(cur.slice, ast.Constant) and isinstance(cur.slice.value, str):
        keys.append(cur.slice.value)
        cur = cur.value
    keys.reverse()
    struct = roots.get(ast.unparse(cur))
    if struct is None or not keys:
        return None
    for i, k in enumerate(keys):
        fld = tables.get(struct, {}).get(k)
        if fld is None:
            return None
        if i == len(keys) - 1:
            return k if fld[1] else None
        struct = fld[0]
    return None


def unguarded_uses(fn, tables, roots):
    """(line, field, how) for every optional field whose native value is iterated, subscripted, measured or unpacked in the
    function without a test of that value"""
    out = []
    named = {}
    for n in ast.walk(fn):
        if isinstance(n, ast.Assign) and len(n.targets) == 1 and isinstance(n.targets[0], ast.Name):
            k = optional_field_read(n.value, tables, roots)
            if k:
                named[n.targets[0].id] = k
    tested = set()
    for n in ast.walk(fn):
        tests = []
        if isinstance(n, (ast.If, ast.While, ast.IfExp)):
            tests.append(n.test)
        elif isinstance(n, ast.BoolOp):
            tests.extend(n.values[:-1])
        elif isinstance(n, ast.Assert):
            tests.append(n.test)
        for t in tests:
            for m in ast.walk(t):
                if isinstance(m, ast.Name) and m.id in named:
                    tested.add(m.id)

    def field_of(e):
        k = optional_field_read(e, tables, roots)
        if k:
            return k
        if isinstance(e, ast.Name) and e.id in named and e.id not in tested:
            return named[e.id]
        return None
    for n in ast.walk(fn):
        uses = []
        if isinstance(n, (ast.For, ast.comprehension)):
            uses.append((n.iter, 'iterated'))
        elif isinstance(n, ast.Subscript):
            uses.append((n.value, 'subscripted'))
        elif isinstance(n, ast.Call) and isinstance(n.func, ast.Name) and n.func.id in ('len', 'list', 'tuple', 'sorted', 'set', 'iter', 'bytes',
                                                                                     'bytearray', 'dict', 'enumerate', 'zip', 'sum', 'min', 'max'):
            uses.extend((a, 'handed to %s()' % n.func.id) for a in n.args)
        elif isinstance(n, ast.Starred):
            uses.append((n.value, 'unpacked'))
        elif isinstance(n, ast.Compare) and any(isinstance(o, (ast.In, ast.NotIn)) for o in n.ops):
            uses.extend((c, 'searched') for c in n.comparators)
        for e, how in uses:
            k = field_of(e)
            if k:
                out.append((getattr(e, 'lineno', fn.lineno), k, how))
    return out


# expressions that hold an asn1crypto structure, by the structure they hold (the X.509 wrapper keeps the decoded certificate)
ASN1_ROOTS = {'self._certificate': 'Certificate', 'certificate': 'Certificate', 'self.certificate': 'Certificate'}


def absent_optional_fields(ctx, report, RULE='C14.R14'):
    """A certificate without extensions (X.509 version 1) or without unique identifiers is a certificate the package accepts;
    the serialisers render what its accessors return.  The native value of an absent OPTIONAL field of an asn1crypto structure is
    None, so every use of such a value as a container needs a test first.  Which fields are optional is read from the ``_fields``
    tables of the dependency, the chain of keys is followed from the certificate structure."""
    report.rule(RULE, 'the native value of an OPTIONAL ASN.1 field (None when absent) is tested before it is used as a container')
    tables = asn1_optional_fields()
    if not tables or 'TbsCertificate' not in tables or not tables['TbsCertificate'].get('extensions', (None, False))[1]:
        report.error('%s: the field tables of asn1crypto.x509 could not be read' % RULE)
        return
    n = 0
    for c in ctx.model.repo_classes():
        for f in c.methods.values():
            src = ast.unparse(f.node)
            if not any(r in src for r in ASN1_ROOTS):
                continue
            for m in ast.walk(f.node):
                if isinstance(m, ast.Subscript) and ast.unparse(m.value) in ASN1_ROOTS:
                    n += 1
            for line, k, how in unguarded_uses(f.node, tables, ASN1_ROOTS):
                report.add(RULE, '%s@optional[%s]' % (f.construct, k),
                           'the native value of the OPTIONAL field %s is %s without a test: it is None for a certificate that has no such field '
                           '(a version 1 certificate has no extensions), and rendering that certificate raises TypeError' % (k, how))
    report.count(RULE, n)
    # no instance on the pinned tree: the same functions must decide this example on every run
    bad = ast.parse("def f(self):\n    for e in self._certificate['tbs_certificate']['extensions'].native:\n        pass\n").body[0]
    good = ast.parse("def f(self):\n    v = self._certificate['tbs_certificate']['extensions'].native\n    if v is None:\n        return []\n"
                     "    return [e for e in v] + list(self._certificate['tbs_certificate']['subject'].native)\n").body[0]
    if len(unguarded_uses(bad, tables, ASN1_ROOTS)) != 1 or unguarded_uses(good, tables, ASN1_ROOTS):
        report.error('%s: the built-in example is not decided as expected (rule broken)' % RULE)
    report.floor(RULE, 1, 'reads of the decoded certificate')


KEY_SIZE_SOURCE = {'PublicKeyParamsRsa': ('modulus', 0), 'PublicKeyParamsDsa': ('prime', 0)}
SIGNED_READS = ('parse_ssh_mpint',)
UNSIGNED_READS = ('parse_mpint', 'parse_numeric')


def key_size_sites_by_syntax(report, RULE, owner, func, skip):
    """the same obligation read off the statements of one function (used where the abstract run does not reach the function: a
    dispatch through ``getattr`` on a name table): keyword or first positional argument of the parameter class, the read that
    filled it, a dominating ``if`` that raises InvalidValue.  ``skip``: (construct, key) pairs already decided on the run"""
    from ..astutil import inline_locals
    n = 0
    for c in [owner]:
        for f in [func]:
            for call in ast.walk(f.node):
                if not (isinstance(call, ast.Call) and ast.unparse(call.func).split('.')[-1] in KEY_SIZE_SOURCE):
                    continue
                kw, pos = KEY_SIZE_SOURCE[ast.unparse(call.func).split('.')[-1]]
                e = next((k.value for k in call.keywords if k.arg == kw), call.args[pos] if len(call.args) > pos else None)
                if e is None:
                    continue
                e = inline_locals(e, f.node)
                if not (isinstance(e, ast.Subscript) and isinstance(e.slice, ast.Constant) and isinstance(e.slice.value, str)):
                    continue        # not a number read by this function (compose side, conversion of an existing key)
                key, parser = e.slice.value, ast.unparse(e.value)
                reads = set()
                for r in ast.walk(f.node):
                    if isinstance(r, ast.Call) and isinstance(r.func, ast.Attribute) and ast.unparse(r.func.value) == parser and \
                            r.func.attr in SIGNED_READS + UNSIGNED_READS and r.args:
                        a0 = r.args[0]
                        names = set()
                        if isinstance(a0, ast.Constant):
                            names.add(a0.value)
                        elif isinstance(a0, ast.Name):
                            for loop in ast.walk(f.node):
                                if isinstance(loop, ast.For) and isinstance(loop.target, ast.Name) and loop.target.id == a0.id and \
                                        isinstance(loop.iter, (ast.List, ast.Tuple)):
                                    names |= {x.value for x in loop.iter.elts if isinstance(x, ast.Constant)}
                        if key in names:
                            reads.add(r.func.attr)
                if not reads:
                    continue
                if (f.construct, key) in skip:
                    continue
                n += 1
                report.touch(f)
                signed = bool(reads & set(SIGNED_READS))
                subject = ast.unparse(e)
                guarded = False
                for st in ast.walk(f.node):
                    if not (isinstance(st, ast.If) and st.lineno < call.lineno and
                            any(isinstance(x, ast.Raise) and x.exc is not None and 'InvalidValue' in ast.unparse(x.exc) for x in st.body)):
                        continue
                    t = inline_locals(st.test, f.node)
                    if isinstance(t, ast.UnaryOp) and isinstance(t.op, ast.Not) and ast.unparse(t.operand) == subject:
                        guarded = guarded or not signed
                    if isinstance(t, ast.Compare) and len(t.ops) == 1 and isinstance(t.comparators[0], ast.Constant):
                        left, op, k = ast.unparse(t.left), t.ops[0], t.comparators[0].value
                        if left == subject and ((isinstance(op, ast.LtE) and k == 0) or (isinstance(op, ast.Lt) and k == 1)):
                            guarded = True
                        if left == subject and isinstance(op, ast.Eq) and k == 0:
                            guarded = guarded or not signed
                if not guarded:
                    report.add(RULE, '%s@key-size[%s]' % (f.construct, key),
                               '%s is read with %s and becomes the %s of the key without a test: for %s the size of the key (log2 of it) does not exist, and '
                               'every rendering of the parsed object - JSON, Markdown, known_hosts - raises ValueError' % (
                                   subject, sorted(reads)[0], kw, 'zero or a negative number' if signed else 'zero'))
    return n


def key_sizes_defined(ctx, report, RULE='C14.R15'):
    """Rendering a key renders its size, and the size of an RSA / DSA key is the logarithm of its modulus / prime (external.json:
    key_size): a parsed key whose modulus or prime is not positive makes every rendering of the object raise ValueError.  In the
    abstract run of every parser (keyword dictionaries, helper methods and name tables resolved) every ``PublicKeyParamsRsa`` /
    ``PublicKeyParamsDsa`` that receives a number read from the input is looked at: a branch of the run refuses that number
    (InvalidValue) when it is zero - and when it is negative, for reads that can give a negative number (SSH mpints are signed,
    the fixed length integers of DNSKEY are not)."""
    from ..core import representatives
    from ..values import ObjV, Sym
    report.rule(RULE, 'the modulus / prime of a parsed RSA / DSA key is refused unless it is positive (its logarithm is the key size every rendering shows)')
    seen = set()
    n = 0

    def key_objects(v, out, depth=0):
        if depth > 10:
            return
        if isinstance(v, ObjV):
            if getattr(v.cls, 'name', None) in KEY_SIZE_SOURCE:
                out.append(v)
            for a in (v.ctor_args or {}).values():
                key_objects(a, out, depth + 1)
        elif isinstance(v, Sym):
            for a in v.args:
                key_objects(a, out, depth + 1)
        elif isinstance(v, (tuple, list)):
            for a in v:
                key_objects(a, out, depth + 1)
    mentions = {}

    def builds_keys(k):
        if k not in mentions:
            mentions[k] = any(isinstance(x, ast.Name) and x.id in KEY_SIZE_SOURCE for f in k.methods.values() for x in ast.walk(f.node))
        return mentions[k]
    for c in ctx.model.concrete_parsables():
        # every receiver class whose chain names one of the parameter classes (two host key classes can share one ``_parse``)
        if not any(isinstance(k, ClassInfo) and builds_keys(k) for k in c.mro):
            continue
        try:
            res = ctx.canon.layout(c, 'parse').result
        except Exception:      # pylint: disable=broad-except
            continue
        objs = []
        key_objects(res.value, objs)
        if not objs:
            continue
        nodes = list(walk(res.block))
        for o in objs:
            kw, pos = KEY_SIZE_SOURCE[o.cls.name]
            v = (o.ctor_args or {}).get(kw)
            if not isinstance(v, FieldV):
                continue
            op = next((x for x in nodes if isinstance(x, Op) and x.side == 'parse' and x.key == v.key and x.target is v.parser), None)
            if op is None or op.prim not in SIGNED_READS + UNSIGNED_READS:
                continue
            where = (getattr(op.func, 'construct', None) or c.construct, v.key)
            if where in seen:
                continue
            seen.add(where)
            n += 1
            if op.func is not None:
                report.touch(op.func)
            signed = op.prim in SIGNED_READS
            guarded = False
            from ..trace import Alt, Raise
            for x in nodes:
                if not (isinstance(x, Alt) and any(isinstance(y, Raise) and 'InvalidValue' in show_exc(y) for y in x.then)):
                    continue
                t = x.cond
                if not isinstance(t, Sym):
                    continue
                same = lambda a: isinstance(a, FieldV) and a.key == v.key and a.parser is v.parser
                if t.op == 'not' and len(t.args) == 1 and same(t.args[0]):
                    guarded = guarded or not signed
                if t.op == 'cmp' and len(t.args) == 3 and same(t.args[1]) and isinstance(t.args[2], int) and not isinstance(t.args[2], bool):
                    o_, k = t.args[0], t.args[2]
                    if (o_ == '<=' and k == 0) or (o_ == '<' and k == 1):
                        guarded = True
                    if o_ == '==' and k == 0:
                        guarded = guarded or not signed
                if t.op == 'cmp' and len(t.args) == 3 and same(t.args[2]) and isinstance(t.args[1], int) and not isinstance(t.args[1], bool):
                    o_, k = t.args[0], t.args[1]
                    if (o_ == '>=' and k == 0) or (o_ == '>' and k == 1):
                        guarded = True
            if not guarded:
                report.add(RULE, '%s@key-size[%s]' % (where[0], v.key),
                           'the number read as %r with %s becomes the %s of the key without a test: for %s the size of the key (log2 of it) does not '
                           'exist, and every rendering of the parsed object - JSON, Markdown, known_hosts - raises ValueError' % (
                               v.key, op.prim, kw, 'zero or a negative number' if signed else 'zero'))
    # functions that name a parameter class and were not reached by any abstract run: decided on their own statements
    for k in ctx.model.repo_classes():
        for f in k.methods.values():
            if any(isinstance(x, ast.Name) and x.id in KEY_SIZE_SOURCE for x in ast.walk(f.node)):
                n += key_size_sites_by_syntax(report, RULE, k, f, seen)
    report.count(RULE, n)
    report.floor(RULE, 4, 'RSA / DSA keys built from parsed numbers')


def show_exc(r):
    from ..values import show
    try:
        return show(r.exc) if not isinstance(r.exc, str) else r.exc
    except Exception:      # pylint: disable=broad-except
        return str(r.exc)


def code_point_texts(ctx, report, RULE='C14.R16'):
    """Markdown renders a code point by ``str()`` of its parameter object (``post_text_encoder``).  For every enumeration of the
    data tables that the package uses and whose parameter class defines ``__str__``: a field the method dereferences without a
    test (``self.named_group.value``) is not null in any row of the table - otherwise the member with the null field is a value the
    parsers hand out and Markdown cannot render (AttributeError on None).  Code of the dependency is read against its own data."""
    from .c10 import used_by_repo
    from ..model import ParamsValue
    report.rule(RULE, 'code points: the text of a parameter object dereferences no field that is null in a row of its table')
    model = ctx.model
    n = 0
    for c in model.all_classes:
        if not c.enum_members or not isinstance(getattr(c, 'enum_params_class', None), ClassInfo):
            continue
        if c.external and not used_by_repo(model, c):
            continue
        f = c.enum_params_class.resolve('__str__')
        if f is None or not isinstance(getattr(f, 'node', None), ast.FunctionDef):
            continue
        me = f.node.args.args[0].arg if f.node.args.args else 'self'
        # fields read as self.F.<something>, outside a test of self.F
        tested = set()
        for t in ast.walk(f.node):
            tests = [t.test] if isinstance(t, (ast.If, ast.IfExp, ast.While)) else (t.values[:-1] if isinstance(t, ast.BoolOp) else [])
            for e in tests:
                for x in ast.walk(e):
                    if isinstance(x, ast.Attribute) and isinstance(x.value, ast.Name) and x.value.id == me:
                        tested.add(x.attr)
        derefs = set()
        for x in ast.walk(f.node):
            if isinstance(x, ast.Attribute) and isinstance(x.value, ast.Attribute) and isinstance(x.value.value, ast.Name) and x.value.value.id == me:
                derefs.add(x.value.attr)
        for fld in sorted(derefs - tested):
            n += 1
            null = [name for name, row in c.enum_members.items() if isinstance(row, ParamsValue) and fld in row.fields and row.fields[fld] is None]
            if null:
                where = ('cryptodatahub:' if c.external else c.module.relpath + ':') + c.name
                report.add(RULE, '%s@text[%s]' % (where, fld),
                           'str() of the parameters of %s reads self.%s.%s without a test, and %s is null for %s: a list holding that code point '
                           '(which the parsers accept) cannot be rendered as Markdown (AttributeError)' % (
                               c.name, fld, next(x.attr for x in ast.walk(f.node) if isinstance(x, ast.Attribute) and isinstance(x.value, ast.Attribute)
                                                 and x.value.attr == fld), fld, ', '.join(null[:4])))
    report.count(RULE, n)
    report.floor(RULE, 1, 'fields dereferenced by the text of parameter objects')


PARSE_ENTRY_POINTS = ('parse_exact_size', 'parse_immutable', 'parse_mutable')
PARSE_ERRORS = ('InvalidValue', 'InvalidType', 'NotEnoughData', 'TooMuchData', 'InvalidDataLength', 'Exception')


def rendering_parses_nothing(ctx, report, RULE='C14.R17'):
    """An object that was accepted is rendered from what it holds.  A ``_asdict`` that (itself, or through a property or method of
    its class chain) calls a parse entry point decodes bytes at rendering time: bytes that were never looked at when the object was
    accepted (an extension value inside a certificate) make the rendering raise a parse error.  Every function reachable from a
    ``_asdict`` of the package through ``self.<name>`` is read; a call of a parse entry point has to sit inside a ``try`` that
    handles the parse errors."""
    report.rule(RULE, 'rendering decodes nothing: no parse entry point is called on the way from _asdict, unless its errors are handled there')
    model = ctx.model
    n = 0
    reported = set()
    for c in model.repo_classes():
        root = c.methods.get('_asdict')
        if root is None:
            continue
        seen, todo = set(), [(root, 0)]
        while todo:
            f, depth = todo.pop()
            if id(f) in seen or f.module.external:
                continue
            seen.add(id(f))
            n += 1
            me = f.node.args.args[0].arg if f.node.args.args else None
            handled = set()
            for t in ast.walk(f.node):
                if isinstance(t, ast.Try) and any(h.type is None or any(e in ast.unparse(h.type) for e in PARSE_ERRORS) for h in t.handlers):
                    for st in t.body:
                        for x in ast.walk(st):
                            handled.add(id(x))
            for x in ast.walk(f.node):
                if isinstance(x, ast.Call) and isinstance(x.func, ast.Attribute) and x.func.attr in PARSE_ENTRY_POINTS and id(x) not in handled:
                    key = '%s@parses[%s]' % (f.construct, ast.unparse(x.func)[:50])
                    if key not in reported:
                        reported.add(key)
                        report.add(RULE, key, 'rendering %s reaches %s, which decodes %s at that moment: data that does not parse makes JSON and '
                                   'Markdown of an accepted object raise a parse error' % (c.name, f.qualname if hasattr(f, 'qualname') else f.name, ast.unparse(x)[:70]))
                if depth < 3 and isinstance(x, ast.Attribute) and isinstance(x.value, ast.Name) and x.value.id == me:
                    g = c.resolve(x.attr)
                    if g is not None:
                        todo.append((g, depth + 1))
    report.count(RULE, n)
    report.floor(RULE, 40, 'functions on the way from _asdict')


def plain_classes_render(ctx, report, RULE='C14.R18'):
    """The generic traversal renders an object that is neither an attrs class nor has ``_asdict`` from its instance dictionary:
    Markdown shows the names without a leading underscore (and ``-`` when there are none), JSON shows every name.  A parsable class
    written with a plain ``__init__`` therefore needs a public rendering of its own, or at least one public attribute for every
    private one it keeps (state kept only in ``self._x`` behind properties is lost in Markdown and leaks its private names into
    JSON)."""
    report.rule(RULE, 'parsable classes with a hand written initialiser have a rendering (_asdict) or keep their state in public attributes')
    n = 0
    for c in ctx.model.repo_classes():
        if c.is_enum or c.has_attrs() or not ctx.model.is_parsable(c):
            continue
        init = c.resolve('__init__')
        if init is None or init.module.external:
            continue
        n += 1
        if c.resolve('_asdict') is not None:
            continue
        names = set()
        for k in c.mro:
            if not isinstance(k, ClassInfo):
                continue
            for f in k.methods.values():
                me = f.node.args.args[0].arg if f.node.args.args else None
                for x in ast.walk(f.node):
                    if isinstance(x, ast.Attribute) and isinstance(x.ctx, ast.Store) and isinstance(x.value, ast.Name) and x.value.id == me:
                        # an assignment to a property of the class stores into what its setter stores into
                        if not any(isinstance(st, ast.FunctionDef) and st.name == x.attr and st.decorator_list for b in c.mro if isinstance(b, ClassInfo)
                                   for st in b.node.body):
                            names.add(x.attr)
        private = sorted(a for a in names if a.startswith('_'))
        public = sorted(a for a in names if not a.startswith('_'))
        if private and not public:
            report.add(RULE, '%s@rendering' % c.construct,
                       '%s keeps its state in %s only and has no _asdict: Markdown renders every instance as "-", JSON shows the private names' % (
                           c.name, ', '.join(private)))
    report.count(RULE, n)
    report.floor(RULE, 1, 'parsable classes with a hand written initialiser')


def url_optional_fields():
    """names of the fields of urllib3's Url that are ``typing.Optional`` (read from the NamedTuple in the dependency's source)"""
    from ..model import find_dependency
    dep = find_dependency('urllib3')
    if dep is None:
        return None
    try:
        with open(os.path.join(dep, 'util', 'url.py')) as f:
            tree = ast.parse(f.read())
    except (OSError, SyntaxError):
        return None
    out = set()
    for c in ast.walk(tree):
        if isinstance(c, ast.ClassDef) and c.name == 'Url':
            for n in ast.walk(c):
                if isinstance(n, ast.Tuple) and len(n.elts) == 2 and isinstance(n.elts[0], ast.Constant) and isinstance(n.elts[0].value, str) and \
                        'Optional' in ast.unparse(n.elts[1]):
                    out.add(n.elts[0].value)
    return out


def plain_class_rendering_evaluated(ctx, report, RULE='C14.R21'):
    """A parsable class with a hand written initialiser renders through its own ``_asdict`` / ``__str__``.  Both are evaluated
    (sa.miniexec) on objects built by evaluating the initialiser: once with every defaulted parameter left at its default (a tuple
    default where the parser hands in a list), once with sequence defaults replaced by a list of the same kind of item - rendering
    has to give a value for both; a TypeError (``[a] + self.items`` with a tuple) or AttributeError is a document that cannot be
    produced for an object the constructor accepts."""
    from ..miniexec import Evaluator, Native, Raised, Unsupported, class_call_hook
    report.rule(RULE, 'hand written renderings (_asdict / __str__) of plain parsable classes give a value for objects built with the constructor defaults')
    n = 0
    for c in ctx.model.repo_classes():
        if c.is_enum or c.has_attrs() or not ctx.model.is_parsable(c):
            continue
        init = c.resolve('__init__')
        if init is None or init.module.external:
            continue
        renderers = [c.methods[m] for m in ('_asdict', '__str__') if m in c.methods]
        if not renderers:
            continue
        a = init.node.args
        params = [x.arg for x in a.args][1:]
        defaults = dict(zip(params[len(params) - len(a.defaults):], a.defaults))
        variants = []
        base = {}
        ok = True
        for p_ in params:
            if p_ in defaults:
                try:
                    base[p_] = ast.literal_eval(defaults[p_])
                except (ValueError, SyntaxError):
                    ok = False
            else:
                base[p_] = 'en'
        if not ok:
            continue
        variants.append(('defaults', base))
        if any(isinstance(v, (tuple, list)) for v in base.values()):
            variants.append(('lists', {k: (['US'] if isinstance(v, (tuple, list)) else v) for k, v in base.items()}))
            variants.append(('tuples', {k: (('US',) if isinstance(v, (tuple, list)) else v) for k, v in base.items()}))
        hook = class_call_hook(c, None, ctx.model)
        nh = hook.name_hook_for(c.module, None)
        for label, args in variants:
            class Me(Native):
                _repo_class = c
            me = Me()
            try:
                Evaluator(dict({a.args[0].arg: me}, **args), hook, nh).function(init.node)
            except (Unsupported, Raised, AttributeError, TypeError):
                break
            for r in renderers:
                n += 1
                report.count(RULE)
                report.touch(r)
                try:
                    Evaluator({r.node.args.args[0].arg: me}, hook, nh).function(r.node)
                except (TypeError, AttributeError) as e:
                    report.add(RULE, '%s@%s[%s]' % (r.construct, type(e).__name__, label),
                               '%s(%s) is accepted by the constructor, %s of it raises %s: %s' % (
                                   c.name, ', '.join('%s=%r' % kv for kv in args.items()), r.name, type(e).__name__, str(e)[:80]))
                except Unsupported as e:
                    # the evaluator reports the TypeError of an operator applied to real values as "not evaluable: <message>"
                    if 'can only concatenate' in str(e) or 'unsupported operand type' in str(e):
                        report.add(RULE, '%s@TypeError[%s]' % (r.construct, label),
                                   '%s(%s) is accepted by the constructor, %s of it raises TypeError: %s' % (
                                       c.name, ', '.join('%s=%r' % kv for kv in args.items()), r.name, str(e)[:120]))
                except Raised:
                    pass
    if n == 0:
        # no plain parsable class with a rendering of its own on this tree (C14.R18 decides whether one is missing)
        report.count(RULE, 0)
        report.notes.append('%s: no hand written rendering of a plain parsable class to evaluate' % RULE)


def equality_on_rendered_values(ctx, report, RULE='C14.R20'):
    """"Equal objects give equal documents": a class that spells out its own ``__eq__`` / ``__hash__`` compares the values its
    rendering shows.  A comparison key that folds case, strips or rounds (``lower()``, ``strip()``, ``round``) makes two objects
    equal whose documents differ - the rendering keeps the spelling each was built with.  The bodies of ``__eq__``, ``__ne__``,
    ``__hash__`` and of the methods / properties of the class they reach are read: no normalising string method, no ``round`` /
    ``abs``."""
    from .c11 import NORMALISING_METHODS
    model = ctx.model
    report.rule(RULE, 'explicit __eq__ / __hash__ compare the attributes as held (no case folding, stripping or rounding in the comparison key)')
    n = 0
    for c in model.repo_classes():
        roots = [c.methods[m] for m in ('__eq__', '__ne__', '__hash__') if m in c.methods]
        if not roots:
            continue
        n += 1
        seen, work = set(), list(roots)
        while work:
            g = work.pop()
            if id(g) in seen:
                continue
            seen.add(id(g))
            report.touch(g)
            for x in ast.walk(g.node):
                if isinstance(x, ast.Attribute) and isinstance(x.value, ast.Name) and x.value.id in ('self', 'other', 'cls'):
                    h = c.resolve(x.attr)
                    if h is not None and not h.module.external and h.cls is not None and h.cls.name != 'object' and len(seen) < 16 and \
                            x.attr not in ('compose', '_asdict', 'as_json', 'as_markdown'):
                        work.append(h)
                bad = None
                if isinstance(x, ast.Call) and isinstance(x.func, ast.Attribute) and x.func.attr in NORMALISING_METHODS and \
                        not (x.func.attr == 'replace' and not x.args):
                    bad = ast.unparse(x.func)[:50] + '()'
                elif isinstance(x, ast.Call) and isinstance(x.func, ast.Name) and x.func.id in ('round', 'abs'):
                    bad = x.func.id + '()'
                if bad:
                    report.add(RULE, '%s@key[%s]' % (g.construct, bad[:30]),
                               'the comparison of %s goes through %s: objects that differ only in what this removes are equal, their JSON / Markdown '
                               '(which shows the attribute as held) is not' % (c.name, bad))
    report.count(RULE, n)
    report.floor(RULE, 1, 'classes with an explicit __eq__ / __hash__')


def optional_url_parts(ctx, report, RULE='C14.R19'):
    """The parts of a urllib3 ``Url`` (path, query, fragment, host ...) are None when the text has none - ``mailto:`` has no path.
    Rendering (and composing) a URL valued component reads them; a part that is sliced, concatenated, measured or asked a string
    method needs a test or an ``or ''`` first.  Which parts are optional is read from the dependency's source."""
    report.rule(RULE, 'optional parts of a URL (None when absent) are tested before they are sliced, concatenated or measured')
    optional = url_optional_fields()
    if not optional or 'path' not in optional:
        report.error('%s: the fields of urllib3.util.url.Url could not be read' % RULE)
        return
    n = 0
    for c in ctx.model.repo_classes():
        if not any(isinstance(x, ast.Attribute) and x.attr == 'Url' for x in ast.walk(c.node)):
            continue
        for f in c.methods.values():
            me = f.node.args.args[0].arg if f.node.args.args else None
            holders = {'%s.value' % me}
            for st in ast.walk(f.node):
                if isinstance(st, ast.Assign) and len(st.targets) == 1 and isinstance(st.targets[0], ast.Name) and ast.unparse(st.value) in holders:
                    holders.add(st.targets[0].id)
            parents = {}
            for p_ in ast.walk(f.node):
                for ch in ast.iter_child_nodes(p_):
                    parents[id(ch)] = p_
            tested = set()
            for t in ast.walk(f.node):
                tests = [t.test] if isinstance(t, (ast.If, ast.IfExp, ast.While)) else []
                for e in tests:
                    for x in ast.walk(e):
                        if isinstance(x, ast.Attribute) and x.attr in optional and ast.unparse(x.value) in holders:
                            tested.add((ast.unparse(x), id(t)))
            for x in ast.walk(f.node):
                if not (isinstance(x, ast.Attribute) and x.attr in optional and ast.unparse(x.value) in holders and isinstance(x.ctx, ast.Load)):
                    continue
                n += 1
                text = ast.unparse(x)
                par = parents.get(id(x))
                if isinstance(par, ast.BoolOp) and isinstance(par.op, ast.Or) and par.values[0] is x:
                    continue        # ``part or ''``
                # inside the body of an ``if`` / the arms of a conditional expression that tests the part
                up, guarded = x, False
                while id(up) in parents:
                    up = parents[id(up)]
                    if (text, id(up)) in tested:
                        guarded = True
                        break
                if guarded:
                    continue
                how = None
                if isinstance(par, ast.Subscript) and par.value is x:
                    how = 'sliced'
                elif isinstance(par, ast.BinOp) and isinstance(par.op, (ast.Add, ast.Mod)):
                    how = 'concatenated'
                elif isinstance(par, ast.Attribute) and par.value is x and isinstance(parents.get(id(par)), ast.Call):
                    how = 'asked .%s()' % par.attr
                elif isinstance(par, ast.Call) and isinstance(par.func, ast.Name) and par.func.id in ('len', 'list', 'sorted', 'iter') and x in par.args:
                    how = 'handed to %s()' % par.func.id
                elif isinstance(par, (ast.For, ast.comprehension)) and par.iter is x:
                    how = 'iterated'
                if how:
                    report.add(RULE, '%s@url-part[%s]' % (f.construct, x.attr),
                               '%s is %s without a test: it is None for a URL that has no %s (urllib3 gives None for the path of a bare "mailto:"), '
                               'and rendering the parsed record raises TypeError' % (text, how, x.attr))
    report.count(RULE, n)
    report.floor(RULE, 3, 'reads of optional URL parts')


def finite_numbers(ctx, report, RULE='C14.R10'):
    """JSON has no NaN and no infinities: ``json.dumps`` writes them as bare words a standard parser refuses.  Every attrs
    field that holds a float (converter ``float``, or ``instance_of(float)``) therefore has to refuse non-finite values when the
    object is built - decided by evaluating the class's ``__attrs_post_init__`` (sa.miniexec) on nan, +inf, -inf and on ordinary
    numbers: the first three must raise, the others must not."""
    from ..miniexec import Evaluator, Obj, Raised, Unsupported, class_call_hook, exception_values
    model = ctx.model
    report.rule(RULE, 'float valued fields refuse NaN and the infinities (JSON cannot express them), and accept ordinary numbers')
    classes = []
    for c in model.all_classes:
        for fld in getattr(c, 'own_fields', []):
            conv = ast.unparse(fld.converter_node) if fld.converter_node is not None else ''
            val = ast.unparse(fld.validator_node) if fld.validator_node is not None else ''
            if conv == 'float' or 'instance_of(float)' in val:
                classes.append((c, fld))
    if not classes:
        report.error(RULE + ': no float valued field found any more (FieldValueComponentFloat.value was one)')
        return
    for c, fld in classes:
        report.count(RULE)
        post = c.resolve('__attrs_post_init__')
        where = '%s@field[%s]' % (c.construct, fld.name)
        if post is None:
            report.add(RULE, where, 'the float valued field %s.%s accepts NaN and the infinities (no check when the object is built): as_json() then writes the bare words '
                       'NaN / Infinity, which a standard JSON parser refuses; a NEL header with "success_fraction": NaN or 1e999 is such an object' % (c.name, fld.name))
            continue
        report.touch(post)
        hook = class_call_hook(c, exception_values('InvalidValue'), model)

        def names(name):
            if name == 'float':
                return float
            raise Unsupported('free name ' + name)
        nh = hook.name_hook_for(post.module, names)
        try:
            bad = []
            for v in (float('nan'), float('inf'), float('-inf')):
                try:
                    Evaluator({'self': Obj(**{fld.name: v})}, hook, nh).function(post.node)
                    bad.append(repr(v))
                except Raised:
                    pass
            refused = []
            for v in (0.0, 0.5, 1.0):
                try:
                    Evaluator({'self': Obj(**{fld.name: v})}, hook, nh).function(post.node)
                except Raised:
                    refused.append(repr(v))
        except Unsupported as e:
            report.add(RULE, where, '__attrs_post_init__ of %s left the subset the evaluation understands: %s' % (c.name, e))
            continue
        if bad:
            report.add(RULE, where, '%s.%s accepts %s: as_json() writes a bare word a standard JSON parser refuses' % (c.name, fld.name, ', '.join(bad)))
        if refused:
            report.add(RULE, where + '[ordinary]', '%s.%s refuses the ordinary number %s' % (c.name, fld.name, ', '.join(refused)))
    report.floor(RULE, 1, 'float valued fields')


# ---- R11: the Markdown functions hand back text --------------------------------------------------------------------------------

MARKDOWN_FAMILY = {'_markdown_result', '_markdown_result_complex', '_markdown_result_list', '_as_markdown', 'post_text_encoder'}
TEXT_METHODS = {'format', 'join', 'replace', 'strip', 'lstrip', 'rstrip', 'lower', 'upper', 'title', 'capitalize', 'ljust', 'rjust', 'zfill', 'decode'}


def in_family(name):
    # helpers split off a Markdown function carry its name as a prefix and are checked like it
    return name in MARKDOWN_FAMILY or name.startswith('_markdown_result')


def markdown_yields_text(ctx, report, RULE='C14.R11'):
    """every function of the Markdown family (``_as_markdown`` of every class, ``_markdown_result*`` of Serializable, the text
    encoders) returns what another member of the family returned, or a pair whose second component is text: a literal, ``str()``,
    a string method, a local that only ever holds such values.  ``as_markdown`` hands that component to the caller as it is."""
    model = ctx.model
    report.rule(RULE, 'every return of the Markdown functions is the result of a Markdown function or a pair (flag, text)')
    funcs = []
    for c in model.all_classes:
        for name, f in getattr(c, 'methods', {}).items():
            if in_family(name) or (name == '__call__' and 'TextEncoder' in c.name):
                funcs.append(f)

    def family_call(node):
        return isinstance(node, ast.Call) and ((isinstance(node.func, ast.Attribute) and in_family(node.func.attr)) or
                                               (isinstance(node.func, ast.Name) and in_family(node.func.id)))

    def analyse(f):
        assigns = {}        # local -> list of (value node, 'whole' | 'second', enclosing isinstance-string names)
        for n in ast.walk(f.node):
            if isinstance(n, ast.Assign):
                for t in n.targets:
                    if isinstance(t, ast.Name):
                        assigns.setdefault(t.id, []).append((n.value, 'whole', n))
                    elif isinstance(t, ast.Tuple) and len(t.elts) == 2 and isinstance(t.elts[1], ast.Name):
                        assigns.setdefault(t.elts[1].id, []).append((n.value, 'second', n))
                        if isinstance(t.elts[0], ast.Name):
                            assigns.setdefault(t.elts[0].id, []).append((ast.Constant(value=False), 'whole', n))
            elif isinstance(n, ast.AugAssign) and isinstance(n.target, ast.Name):
                assigns.setdefault(n.target.id, []).append((n.value, 'whole', n))
        string_tested = {}      # id(statement) -> names known to be strings there (if isinstance(x, string types): <body>)
        for n in ast.walk(f.node):
            if not isinstance(n, ast.If):
                continue
            test, arms = n.test, (n.body, n.orelse)
            if isinstance(test, ast.UnaryOp) and isinstance(test.op, ast.Not):
                test, arms = test.operand, (n.orelse, n.body)        # if not isinstance(...): <other> else: <strings>
            if isinstance(test, ast.Call) and isinstance(test.func, ast.Name) and test.func.id == 'isinstance' \
                    and len(test.args) == 2 and isinstance(test.args[0], ast.Name) and 'string_types' in ast.unparse(test.args[1]):
                for st in arms[0]:
                    for sub in ast.walk(st):
                        string_tested.setdefault(id(sub), set()).add(test.args[0].id)

        def texty(node, seen=()):
            if isinstance(node, ast.Constant):
                return isinstance(node.value, str)
            if isinstance(node, ast.JoinedStr):
                return True
            if isinstance(node, ast.Call):
                if isinstance(node.func, ast.Name) and node.func.id in ('str', 'repr'):
                    return True
                if isinstance(node.func, ast.Attribute) and node.func.attr in TEXT_METHODS:
                    return True
                if isinstance(node.func, ast.Attribute) and node.func.attr in ('ensure_str', 'ensure_text', 'u'):
                    return True
                return False
            if isinstance(node, ast.BinOp) and isinstance(node.op, (ast.Add, ast.Mod, ast.Mult)):
                return texty(node.left, seen) or texty(node.right, seen)
            if isinstance(node, ast.IfExp):
                return texty(node.body, seen) and texty(node.orelse, seen)
            if isinstance(node, ast.Name):
                if node.id in seen:
                    return True
                if node.id in string_tested.get(id(node), ()):
                    return True
                defs = assigns.get(node.id)
                if not defs:
                    return False
                for value, how, stmt in defs:
                    if how == 'second':
                        if not family_call(value):
                            return False
                    elif isinstance(value, ast.Name) and value.id in string_tested.get(id(value), ()):
                        continue
                    elif not texty(value, seen + (node.id,)):
                        return False
                return True
            return False

        def pair_ok(node, seen=()):
            if family_call(node):
                return True
            if isinstance(node, ast.Tuple) and len(node.elts) == 2:
                return texty(node.elts[1])
            if isinstance(node, ast.Name) and node.id not in seen:
                defs = assigns.get(node.id)
                return bool(defs) and all(how == 'whole' and pair_ok(value, seen + (node.id,)) for value, how, _ in defs)
            return False
        bad = []
        for n in ast.walk(f.node):
            if isinstance(n, ast.Return) and n.value is not None and not pair_ok(n.value):
                bad.append(n)
        return bad
    for f in funcs:
        report.count(RULE)
        report.touch(f)
        for n in analyse(f):
            report.add(RULE, '%s@return[%s]' % (f.construct, ast.unparse(n.value)[:40]),
                       '`return %s`: the second component is not text on every path (it is whatever the expression yields - a Base64Data, a Url, a number): '
                       'as_markdown() hands it to the caller as it is' % ast.unparse(n.value)[:60])
    report.floor(RULE, 12, 'Markdown functions')


# ---- R12: sequences joined with + are of one kind ------------------------------------------------------------------------------

def list_concatenation(ctx, report, RULE='C14.R12'):
    """``[x] + self.items``: a field validated with ``deep_iterable`` (and no converter) holds any iterable the caller gave - a
    tuple, a set - and ``list + tuple`` raises TypeError inside _asdict / compose, i.e. while the report is generated.  Every ``+``
    between a list display and such a field has to go through ``list(...)``."""
    model = ctx.model
    report.rule(RULE, 'a list is only concatenated with a field that is known to be a list (deep_iterable admits tuples and sets)')
    n_sites = 0
    for c in model.all_classes:
        if not hasattr(c, 'attrs_fields') or not c.has_attrs():
            continue
        loose = {}
        for fld in c.attrs_fields():
            val = ast.unparse(fld.validator_node) if fld.validator_node is not None else ''
            if 'deep_iterable' in val and 'iterable_validator' not in val and fld.converter_node is None:
                loose[fld.name] = fld
        if not loose:
            continue
        for name, f in c.methods.items():
            for n in ast.walk(f.node):
                if not (isinstance(n, ast.BinOp) and isinstance(n.op, ast.Add)):
                    continue
                for a, b in ((n.left, n.right), (n.right, n.left)):
                    if isinstance(a, (ast.List, ast.ListComp)) and isinstance(b, ast.Attribute) and isinstance(b.value, ast.Name) and b.value.id == 'self' and b.attr in loose:
                        n_sites += 1
                        report.count(RULE)
                        report.touch(f)
                        report.add(RULE, '%s@concat[%s]' % (f.construct, b.attr),
                                   '`%s`: %s.%s is validated with deep_iterable only, so it may be a tuple or a set; list + tuple raises TypeError (%s is what '
                                   'as_json / as_markdown / compose run)' % (ast.unparse(n)[:60], c.name, b.attr, f.name))
    # instances: the loosely validated fields looked at
    for c in model.all_classes:
        if hasattr(c, 'attrs_fields') and c.has_attrs():
            for fld in getattr(c, 'own_fields', []):
                if fld.validator_node is not None and 'deep_iterable' in ast.unparse(fld.validator_node):
                    report.count(RULE)
    report.floor(RULE, 20, 'deep_iterable validated fields')


# ---- R13: values that compare equal are rendered equal ------------------------------------------------------------------------

def equal_values_render_equal(ctx, report, RULE='C14.R13'):
    """two aware datetimes that denote the same instant in different zones are equal, and so are the objects that hold them (an
    SCT built with a +02:00 timestamp and its parse / compose round trip, which is in UTC); bytes and bytearray with the same
    content are equal.  Serializable._json_result and Serializable._markdown_result are evaluated (sa.miniexec, with the real
    datetime type) on such pairs: the renderings have to be identical."""
    import datetime as dt
    import enum
    import ipaddress
    from ..miniexec import Evaluator, METHODS, Obj, Raised, Unsupported, class_call_hook
    model = ctx.model
    report.rule(RULE, 'leaf values that compare equal (one instant in two zones, bytes and bytearray) have one JSON and one Markdown rendering')
    ser, encoder = model.try_cls('Serializable'), model.try_cls('SerializableTextEncoder')
    jr = ser.methods.get('_json_result') if ser is not None else None
    mr = ser.methods.get('_markdown_result') if ser is not None else None
    enc = encoder.methods.get('__call__') if encoder is not None else None
    if jr is None or mr is None or enc is None:
        report.error(RULE + ': Serializable._json_result / _markdown_result / SerializableTextEncoder.__call__ vanished')
        return
    for f in (jr, mr, enc):
        report.touch(f)
    for m in ('astimezone', 'replace', 'isoformat', 'strftime', 'utcoffset'):
        METHODS.add((dt.datetime, m))

    class Never:        # a library class nothing in the table is an instance of
        pass

    def names(name):
        table = {'datetime.datetime': dt.datetime, 'datetime.timedelta': dt.timedelta, 'enum.Enum': enum.Enum, 'dateutil.tz.UTC': dt.timezone.utc,
                 'datetime.timezone.utc': dt.timezone.utc, 'float': float, 'bool': bool, 'int': int, 'str': str, 'bytes': bytes, 'bytearray': bytearray,
                 'list': list, 'tuple': tuple, 'dict': dict, 'set': set, 'frozenset': frozenset}
        if name in table:
            return table[name]
        if name.startswith('ipaddress.'):
            return getattr(ipaddress, name.split('.')[-1])
        if name.startswith('urllib3.'):
            return Never
        raise Unsupported('free name ' + name)

    def extra(n, ev):
        d = ast.unparse(n.func)
        if d == 'attr.has':
            return hasattr(ev.ev(n.args[0]), '__attrs_attrs__')
        if d == 'type' and len(n.args) == 1:
            return type(ev.ev(n.args[0]))
        if d == 'hasattr':
            return hasattr(ev.ev(n.args[0]), ev.ev(n.args[1]))
        if d.endswith('.post_text_encoder'):
            h2 = class_call_hook(encoder, extra, model)
            return Evaluator({'self': Obj(), 'obj': ev.ev(n.args[0]), 'level': ev.ev(n.args[1])}, h2, h2.name_hook_for(enc.module, names)).function(enc.node)
        if d == 'bytes_to_hex_string':
            v = ev.ev(n.args[0])
            return ':'.join('%02X' % b for b in bytes(v))
        return NotImplemented
    hook = class_call_hook(ser, extra, model)
    nh = hook.name_hook_for(ser.module, names)
    noon = dt.datetime(2020, 1, 1, 12, 0, 0, tzinfo=dt.timezone.utc)
    PAIRS = [('instant', noon, noon.astimezone(dt.timezone(dt.timedelta(hours=2)))),
             ('instant', noon, noon.astimezone(dt.timezone(dt.timedelta(hours=-9, minutes=-30)))),
             ('octets', b'\\x01\\xab', bytearray(b'\\x01\\xab'))]
    problems = {}
    try:
        for kind, a, b in PAIRS:
            assert a == b
            for f, env in ((jr, {}), (mr, {'cls': 'cls', 'level': 0})):
                report.count(RULE)
                out = []
                for v in (a, b):
                    e = dict(env)
                    e['obj'] = v
                    out.append(Evaluator(e, hook, nh).function(f.node))
                if out[0] != out[1]:
                    problems.setdefault((f.construct, kind), 'the equal values %r and %r are rendered as %r and %r: an object and its parse / compose round trip give different reports' % (a, b, out[0], out[1]))
    except (Unsupported, Raised) as e:
        report.add(RULE, jr.construct + '@tabulation', 'the leaf renderers left the subset the evaluation understands: %s' % e)
        return
    for (cons, kind), text in sorted(problems.items()):
        report.add(RULE, '%s@equal[%s]' % (cons, kind), text)
    report.floor(RULE, 6, 'equal pairs x renderers')
