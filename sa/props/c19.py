"""C19 -- parsing work is bounded linearly by the input size (structural clauses)."""
from __future__ import annotations

import ast

from ..canon import class_min_size, min_size
from ..compare import variant_classes
from ..core import representatives
from ..layout import flatten_items
from ..model import ClassInfo
from ..trace import Loop, Op, Raise, Return, walk
from ..values import ClassV, FieldV, ObjV, Sym, show

META = {
    'explanation': (
        'R1 bounded recursion: the class containment graph (A parses B through parse_parsable, item/fallback classes of '
        'containers, variant registries, direct parse_* calls) extracted from the interpreter traces is acyclic, so the '
        'recursion depth is at most its longest path (reported). R2 declared counts: every loop whose bound is an input '
        'derived integer contains a consuming primitive (the first missing item raises), and the bulk primitive '
        'parse_numeric_array compares count*size with the bytes present before it allocates. R4 loop progress: every item, '
        'fallback and variant class of every container has a minimal wire size >= 1 (a zero width item would spin the '
        'container loop forever), every symbolic loop of a _parse contains a consuming primitive, and every while loop of '
        'common/parse.py reassigns a variable of its condition or leaves through break/raise/return. R3 (no rescans): an '
        'input sized scan called from inside an input sized loop must start at an offset that the outer loop advances.'
        ' R2 also reports a path through a count-driven loop that reaches the next iteration without consuming (a swallowed read failure). R5: outside the registration API no function writes class-level state or mutates a container reached through it (memoisation under an \'if key not in\' guard accepted). R6: no list.remove/index/count inside a loop of a parse function.'),
    'assumptions': ['C-level cost of slicing and of library calls (dateutil, asn1crypto, struct) is not counted',
                    'the global linear bound with a fixed constant per class is not proven'],
    'trusted_base': ['python ast', 'sa.interp traces', 'sa.canon min_size'],
    'exhaustive': True,
}

META['explanation'] += ' ' + 'R8: no function on the parse side reaches itself through calls. R9: evaluation steps of the string array parser grow by equal amounts for equal growth of the input (items, separator runs, blank runs).'

META['explanation'] += ' ' + 'R10: no function changes a container bound at module level. R11: a buffer that is parsed inside a loop and re-bound there is re-bound to a suffix of itself. R12: no loop re-assigns a growing value through a property setter that walks it.'


def contained_classes(ctx, c):
    """classes whose parser can be entered while parsing c (one level)"""
    out = set()
    lay = ctx.canon.layout(c, 'parse')
    for o in walk(lay.result.block):
        if not isinstance(o, Op) or o.side != 'parse':
            continue
        for key in ('parsable_class', 'item_class', 'item_base_class', 'fallback_class', 'cls', 'separator_class'):
            v = o.args.get(key)
            vs = [v]
            if isinstance(v, Sym) and v.op == 'phi':
                vs = list(v.args)
            for x in vs:
                if isinstance(x, ClassV) and isinstance(x.cls, ClassInfo) and ctx.model.is_parsable(x.cls):
                    out.add(x.cls)
        if o.prim == 'parse_parsable_derived_array':
            b = o.args.get('item_base_class')
            if isinstance(b, ClassV) and isinstance(b.cls, ClassInfo):
                out |= set(ctx.model.leaf_classes(b.cls))
    return out


def expand(ctx, k):
    """abstract bases / variants -> the concrete classes that can be entered"""
    if k.is_subclass_of('VariantParsableBase'):
        vs = variant_classes(k, ctx.canon)
        if not vs:
            # a registry the evaluator cannot compute (built by a comprehension over method results): every parsable class named
            # in the body of the variant class may be entered
            vs = set()
            for n in (x for st in k.node.body for x in ast.walk(st)):
                if isinstance(n, ast.Name):
                    r = ctx.model.resolve_name(k.module, n.id)
                    if isinstance(r, ClassInfo) and r is not k and ctx.model.is_parsable(r):
                        vs |= {r} if not r.abstract_methods else {s for s in ctx.model.all_subclasses(r) if not s.abstract_methods}
        return set(vs or []) | {k}
    if k.abstract_methods:
        return {s for s in ctx.model.all_subclasses(k) if not s.abstract_methods}
    return {k}


def idle_path(loop):
    """description of a path through the loop body that reaches the next iteration without a consuming parser call
    (a handler that swallows the failure of the read and carries on), or None"""
    from ..paths import TooManyPaths, paths

    def consumes(st):
        if isinstance(st, tuple):
            return False
        for n in ast.walk(st):
            if isinstance(n, ast.Call) and isinstance(n.func, ast.Attribute) and (n.func.attr.startswith('parse') or n.func.attr.startswith('_parse')):
                return True
        return False
    try:
        ps = paths(loop.body)
    except TooManyPaths:
        return None
    for stmts, how in ps:
        if how in ('return', 'raise'):
            continue
        if stmts and isinstance(stmts[-1], ast.Break):
            continue
        if any(isinstance(st, ast.Break) for st in stmts if not isinstance(st, tuple)):
            continue
        if not any(consumes(st) for st in stmts):
            hs = [st for st in stmts if isinstance(st, tuple) and st[0] == 'except']
            if hs:
                return 'handler `except %s` at line %s continues the loop' % (
                    ast.unparse(hs[0][1].type) if hs[0][1].type is not None else '', hs[0][1].lineno)
            return 'a branch of the body reads nothing'
    return None


def check(ctx, report):
    model = ctx.model
    report.rule('C19.R1', 'class containment graph acyclic (bounded recursion depth)')
    report.rule('C19.R2', 'input derived counts drive loops that consume, bulk reads are checked before allocating')
    report.rule('C19.R3', 'no rescans from a loop invariant origin')
    report.rule('C19.R4', 'loop progress: min item size >= 1, loops reassign their condition variable')
    classes = model.concrete_parsables()
    graph = {}
    for c in classes:
        report.count('C19.R1')
        succ = set()
        for k in contained_classes(ctx, c):
            succ |= expand(ctx, k)
        graph[c] = {s for s in succ if s is not c or True}
    # cycle detection + longest path
    color, depth = {}, {}
    cycle = []

    def dfs(u, stack):
        color[u] = 1
        best = 0
        for v in sorted(graph.get(u, ()), key=lambda x: x.name):
            if v not in graph:
                continue
            if color.get(v) == 1:
                cycle.append([x.name for x in stack[stack.index(v):] + [v]] if v in stack else [u.name, v.name])
                continue
            if color.get(v) is None:
                dfs(v, stack + [v])
            best = max(best, depth.get(v, 0) + 1)
        depth[u] = best
        color[u] = 2
    import sys
    sys.setrecursionlimit(10000)
    for c in classes:
        if color.get(c) is None:
            dfs(c, [c])
    # one finding per strongly connected group of classes (keyed by its members, not by the order they were met in)
    groups = []
    for cyc in cycle:
        members = set(cyc)
        for g in groups:
            if g & members:
                g |= members
                break
        else:
            groups.append(members)
    merged = True
    while merged:
        merged = False
        for i, g in enumerate(groups):
            for h in groups[i + 1:]:
                if g & h:
                    g |= h
                    groups.remove(h)
                    merged = True
                    break
            if merged:
                break
    for g in groups:
        names = sorted(g)
        example = next(c for c in cycle if set(c) <= g)
        report.add('C19.R1', 'containment@cycle[%s%s]' % (','.join(names[:4]), ',+%d' % (len(names) - 4) if len(names) > 4 else ''),
                   'parsing can recurse without bound (depth grows with the input, RecursionError in the end), e.g. through %s' % ' > '.join(example))
    maxd = max(depth.values()) if depth else 0
    report.sample({'rule': 'C19.R1', 'classes': len(graph), 'edges': sum(len(v) for v in graph.values()), 'max_nesting_depth': maxd})
    # the one intra-primitive cycle: _apply_item_class <-> _parse_string_until_separator is cut by fallback_class=None
    pt = model.cls('ParserText')
    ap = pt.methods.get('_apply_item_class')
    report.count('C19.R1')
    if ap is None:
        report.error('C19.R1: ParserText._apply_item_class vanished')
    else:
        calls = [n for n in ast.walk(ap.node) if isinstance(n, ast.Call) and isinstance(n.func, ast.Attribute) and n.func.attr == '_parse_string_until_separator']
        for cl in calls:
            args = cl.args
            # signature: (name, item_offset, separators, item_class, fallback_class, ...)
            fb = args[4] if len(args) > 4 else next((k.value for k in cl.keywords if k.arg == 'fallback_class'), None)
            if not (isinstance(fb, ast.Constant) and fb.value is None):
                report.add('C19.R1', ap.construct + '@fallback', 'the fallback parse re-enters _parse_string_until_separator with a fallback class again: unbounded mutual recursion')
    function_recursion(ctx, report)
    # ---- R2
    pb = model.cls('ParserBinary')
    na = pb.methods.get('_parse_numeric_array')
    report.count('C19.R2')
    if na is None:
        report.error('C19.R2: ParserBinary._parse_numeric_array vanished')
    else:
        # the first thing the function does - apart from naming pure arithmetic over its arguments - is to compare the declared
        # count * size with the bytes present and to raise NotEnoughData; decided on linear forms, locals expanded
        from ..linform import guard_deficit, lin, single_defs
        body = [s for s in na.node.body if not (isinstance(s, ast.Expr) and isinstance(s.value, ast.Constant))]
        defs = single_defs(na.node)
        want = lin(ast.parse('item_num * item_size - self.unparsed_length', mode='eval').body)
        ok = False
        for st in body:
            if isinstance(st, ast.If):
                gd = guard_deficit(st.test, None, defs)
                ok = gd is not None and gd[0] == want and any(isinstance(x, ast.Raise) and x.exc is not None and 'NotEnoughData' in ast.unparse(x.exc) for x in st.body)
                break
            pure = isinstance(st, ast.Assign) and not any(isinstance(x, (ast.Call, ast.List, ast.ListComp, ast.Tuple, ast.Dict, ast.Set, ast.GeneratorExp, ast.Subscript))
                                                          and not (isinstance(x, ast.Call) and isinstance(x.func, ast.Name) and x.func.id == 'len')
                                                          for x in ast.walk(st.value))
            if not pure:
                break
        if not ok:
            report.add('C19.R2', na.construct + '@precheck', 'count*size is not compared with the bytes present before the items are unpacked')
    for c in representatives(ctx, '_parse'):
        lay = ctx.canon.layout(c, 'parse')
        for n in walk(lay.result.block):
            if isinstance(n, Loop):
                report.count('C19.R2')
                report.count('C19.R4')
                body_ops = [x for x in walk(n.body) if isinstance(x, Op) and x.side == 'parse']
                exits = [x for x in walk(n.body) if isinstance(x, (Raise, Return))]
                f = c.resolve('_parse')
                where = (n.node and getattr(n, 'node', None)) and f.construct
                derived = isinstance(n.iterable, Sym) and n.iterable.op == 'range' and mentions_input(n.iterable)
                if derived and not body_ops:
                    consuming = loop_reassigns(n.node)
                    if not consuming:
                        report.add('C19.R2', '%s@loop[%s]' % (f.construct, show(n.iterable)[:40]),
                                   'loop bounded by an input derived value does not consume input: work proportional to a declared count')
                if derived and body_ops and isinstance(n.node, (ast.For, ast.While)):
                    idle = idle_path(n.node)
                    if idle:
                        report.add('C19.R2', '%s@loop[%s]/idle-path' % (f.construct, show(n.iterable)[:40]),
                                   'loop bounded by an input derived value has a path that goes round without consuming input (%s): '
                                   'work proportional to a declared count' % idle)
                if n.how == 'while' and not body_ops and not loop_reassigns(n.node) and not exits:
                    report.add('C19.R4', '%s@while[%s]' % (f.construct, show(n.iterable)[:40]), 'loop neither consumes input nor changes its condition')
    # ---- R4 container items
    seen = set()
    for c in model.repo_classes():
        if not c.is_subclass_of('ArrayBase') or c.abstract_methods or c.resolve('get_param') is None or c.resolve('get_param').abstract:
            continue
        prm = ctx.interp.const_call(c, 'get_param')
        if not isinstance(prm, ObjV):
            continue
        for attr in ('item_class', 'fallback_class'):
            v = prm.attrs.get(attr)
            if isinstance(v, ClassV) and isinstance(v.cls, ClassInfo) and model.is_parsable(v.cls):
                for k in expand(ctx, v.cls):
                    if (c, k) in seen:
                        continue
                    seen.add((c, k))
                    report.count('C19.R4')
                    ms = class_min_size(k, ctx.canon)
                    if ms < 1 and not k.is_subclass_of('VariantParsableBase'):
                        if text_item_progress(ctx, k):
                            continue
                        report.add('C19.R4', '%s@item[%s]' % (c.construct, k.name),
                                   'item class %s can parse successfully from 0 bytes: the container loop would not make progress' % k.name)
    # ---- R4/R3 while loops of the primitives
    for cname in ('ParserBase', 'ParserText', 'ParserBinary'):
        k = model.cls(cname)
        for name, f in k.methods.items():
            for n in ast.walk(f.node):
                if isinstance(n, ast.While):
                    report.count('C19.R4')
                    report.touch(f)
                    if not loop_reassigns(n) and not has_exit(n):
                        report.add('C19.R4', '%s@while[%s]' % (f.construct, ast.unparse(n.test)[:40]), 'loop does not change its condition and has no exit')
    # R3: scans called inside loops start at a variable the loop advances
    scan = pt.methods.get('_parse_string_until_separator')
    sa = pt.methods.get('_parse_string_array')
    report.count('C19.R3', 2)
    if scan is None or sa is None:
        report.error('C19.R3: ParserText scan helpers vanished')
    else:
        for loop in [n for n in ast.walk(sa.node) if isinstance(n, ast.While)]:
            for cl in [n for n in ast.walk(loop) if isinstance(n, ast.Call) and isinstance(n.func, ast.Attribute) and n.func.attr in ('_parse_string_until_separator', '_check_separators')]:
                off = cl.args[1] if len(cl.args) > 1 else None
                if not (isinstance(off, ast.Name) and assigned_in(loop, off.id)):
                    report.add('C19.R3', sa.construct + '@rescan[%s]' % cl.func.attr, 'scan inside the item loop starts at %s, which the loop does not advance' % (ast.unparse(off) if off is not None else '?'))
        if not scanner_work(ctx, report, pt, scan):
            scan_origin(report, scan)
        array_work(ctx, report, pt, sa)
    report.floor('C19.R1', 300, 'classes in the containment graph')
    stateless_parsing(ctx, report)
    module_level_state(ctx, report)
    reparsed_buffers(ctx, report)
    revalidating_setters(ctx, report)
    linear_scans_in_loops(ctx, report)
    parser_construction(ctx, report)
    report.floor('C19.R4', 60, 'loop/item obligations')


def parser_construction(ctx, report, RULE='C19.R7'):
    """a parser object is created for every item of every list (each nested parse builds one over the rest of the input), so
    what its construction does per byte of the buffer is done items x bytes times.  The fields of the parser classes, and their
    ``__attrs_post_init__``, must not walk over the buffer at interpreter level: no per-element validator
    (deep_iterable / deep_mapping), no converter or validator written in Python that is handed the buffer, no loop over it -
    ``converter=bytes`` and ``instance_of`` are single steps"""
    model = ctx.model
    report.rule(RULE, 'constructing a parser takes a constant number of interpreter steps: nothing walks over the buffer per byte')
    base = model.try_cls('ParserBase')
    if base is None:
        report.error('%s: ParserBase vanished' % RULE)
        return
    n = 0
    for k in [base] + model.all_subclasses(base):
        for fld in k.own_fields:
            n += 1
            report.count(RULE)
            for what, node in (('validator', fld.validator_node), ('converter', fld.converter_node)):
                if node is None:
                    continue
                per_element = sorted({x.attr for x in ast.walk(node) if isinstance(x, ast.Attribute) and x.attr in ('deep_iterable', 'deep_mapping')})
                if per_element:
                    report.add(RULE, '%s@%s[%s]' % (k.construct, what, fld.name),
                               'the %s of %s.%s checks the value element by element (%s): for the input buffer that is one interpreter level '
                               'step per byte for every parser object, i.e. per item of every list - quadratic in the input' % (what, k.name, fld.name, ', '.join(per_element)))
                for x in ast.walk(node):
                    if isinstance(x, (ast.Name, ast.Attribute)) and isinstance(getattr(x, 'ctx', None), ast.Load):
                        r = model.resolve_expr(k.module, x) if isinstance(x, ast.Name) else None
                        if r is not None and hasattr(r, 'node') and isinstance(getattr(r, 'node', None), (ast.FunctionDef, ast.Lambda)) and not r.module.external and \
                                any(isinstance(y, (ast.For, ast.While, ast.ListComp, ast.GeneratorExp, ast.SetComp, ast.DictComp)) for y in ast.walk(r.node)):
                            report.add(RULE, '%s@%s[%s]' % (k.construct, what, fld.name),
                                       'the %s of %s.%s is the repository function %s, which loops: run for every parser object over the buffer' % (what, k.name, fld.name, r.name))
        pi = k.methods.get('__attrs_post_init__')
        if pi is not None:
            report.count(RULE)
            for x in ast.walk(pi.node):
                if isinstance(x, (ast.For, ast.While, ast.ListComp, ast.GeneratorExp, ast.SetComp, ast.DictComp)) and '_parsable' in ast.unparse(x):
                    report.add(RULE, '%s@post-init' % k.construct, '%s.__attrs_post_init__ walks over the buffer' % k.name)
        for dec_name, m in k.methods.items():
            # attrs validator methods (@_parsable.validator)
            if any(isinstance(d, ast.Attribute) and d.attr == 'validator' and isinstance(d.value, ast.Name) and d.value.id == '_parsable' for d in m.node.decorator_list):
                report.count(RULE)
                if any(isinstance(y, (ast.For, ast.While, ast.ListComp, ast.GeneratorExp, ast.SetComp, ast.DictComp)) for y in ast.walk(m.node)):
                    report.add(RULE, '%s@validator[_parsable]' % k.construct, 'the validator method %s loops over the buffer for every parser object' % m.name)
    if n < 3:
        report.error('%s: only %d fields of the parser classes found (anchor moved)' % (RULE, n))


def array_work(ctx, report, pt, sa, RULE='C19.R9'):
    """ParserText._parse_string_array evaluated (sa.miniexec, the helper methods it calls included) on three families of input of
    growing size n: n items, one item followed by a run of n separators (empty items skipped), a run of n blanks around one
    separator.  The number of evaluation steps must be an affine function of n - equal increments for equal increases of n; an
    increment that grows with n is work quadratic in the input (a run that is counted from every one of its positions)."""
    from .. import miniexec
    from ..miniexec import Evaluator, Obj, Raised, Unsupported, class_call_hook
    report.rule(RULE, 'string arrays: evaluation steps grow by equal amounts for equal growth of the input (items, separator runs, blank runs)')

    def extra(n, ev):
        d = ast.unparse(n.func)
        if d == 'type':
            return 'type'
        if d == 'isinstance' and len(n.args) == 2 and ast.unparse(n.args[1]) == 'type':
            return isinstance(ev.ev(n.args[0]), type)
        if d == 'issubclass' and len(n.args) == 2 and ev.ev(n.args[0]) is str:
            return ast.unparse(n.args[1]) in ('six.string_types', 'str', 'six.text_type')      # the items of the lists here are text
        return NotImplemented
    hook = class_call_hook(pt, extra, ctx.model)
    params = [a.arg for a in sa.node.args.args if a.arg != 'self']
    defaults = {'max_item_num': None, 'item_class': str, 'fallback_class': None, 'separator_spaces': '', 'skip_empty': False}

    def run(data, **kw):
        me = Obj(_parsable=data, _encoding='ascii', _parsed_length=0, _parsed_values={})
        me._repo_class = pt
        env = dict(defaults)
        env.update(kw)
        env.update({'name': 'v', 'separator': ';', 'self': me})
        env = {k: v for k, v in env.items() if k in params or k == 'self'}
        miniexec.COUNTER[0] = 0
        Evaluator(env, hook, hook.name_hook_for(sa.module, None)).function(sa.node)
        return miniexec.COUNTER[0], me._parsed_values.get('v'), me._parsed_length
    families = {
        'items': (lambda n: b';'.join([b'ab'] * n), {}, lambda n: ['ab'] * n),
        'separator-run': (lambda n: b'ab' + b';' * n + b'cd', {'skip_empty': True}, lambda n: ['ab', 'cd']),
        'trailing-separator-run': (lambda n: b'ab' + b';' * n, {'skip_empty': True}, lambda n: ['ab']),
        'blank-run': (lambda n: b'ab' + b' ' * n + b';' + b' ' * n + b'cd', {'separator_spaces': ' '}, lambda n: ['ab', 'cd']),
    }
    sizes = (8, 16, 24, 32) if not ctx.thorough else (8, 16, 24, 32, 64, 96, 128)
    try:
        for fam, (make, kw, want) in sorted(families.items()):
            steps = []
            for n in sizes:
                report.count(RULE)
                data = make(n)
                st, value, consumed = run(data, **kw)
                if value != want(n) or consumed != len(data):
                    report.add(RULE, '%s@value[%s]' % (sa.construct, fam), 'the input %r... is read as %r (%r of %d characters consumed)' % (
                        data[:24], (value or [])[:4], consumed, len(data)))
                    break
                steps.append(st)
            else:
                per = [(steps[i + 1] - steps[i]) / float(sizes[i + 1] - sizes[i]) for i in range(len(steps) - 1)]
                if per[-1] > 1.25 * per[0] + 1:          # equal on the pinned tree; a quarter more per element over a fourfold size is growth
                    report.add(RULE, '%s@work[%s]' % (sa.construct, fam),
                               'input sizes %s take %s evaluation steps: the cost of one more element grows with the size (%s steps per element): '
                               'the array is parsed in time quadratic in the length of the input' % (list(sizes), steps, ['%.1f' % x for x in per]))
                else:
                    report.sample({'rule': RULE, 'family': fam, 'sizes': list(sizes), 'steps': steps, 'steps_per_element': per[0]})
    except Unsupported as e:
        report.undecided.append('%s: the array parser left the subset the work tabulation understands (%s); C19.R3 reads its shape' % (RULE, e))
    except Raised as e:
        report.add(RULE, sa.construct + '@work', 'the array parser raises %s on a well formed list' % e.what[:60])
    report.floor(RULE, 12, 'evaluated list inputs')


def scanner_work(ctx, report, pt, scan):
    """ParserText._parse_string_until_separator evaluated (sa.miniexec, with the helper methods it calls) on
    ``<prefix> item <separator> <tail>`` with two separators of which one does not occur, the item starting at the offset
    handed in: the item found and the number of evaluation steps must not depend on the length of the prefix (bytes already
    consumed) nor on the length of the tail (bytes of later items) - _parse_string_array calls the scanner once per item, so
    work that grows with either makes the array quadratic.  One call of a bytes method (find, index) is one step, as it
    is one interpreter-level step.  Returns False when the scanner left the evaluable subset (the syntactic rule decides)."""
    from .. import miniexec
    from ..miniexec import Evaluator, Obj, Raised, Unsupported, class_call_hook
    seen = {}

    def extra(n, ev):
        d = ast.unparse(n.func)
        if d == 'self._apply_item_class':
            args = [ev.ev(a) for a in n.args]
            seen['range'] = (args[1], args[2])
            return ('item', args[1], args[2])
        if d == 'type':
            return 'type'
        return NotImplemented
    hook = class_call_hook(pt, extra, ctx.model)
    params = [a.arg for a in scan.node.args.args if a.arg != 'self']
    item = b'a:example.com'

    def run(prefix, tail, seps, may_end):
        data = b'p' * prefix + item + tail
        me = Obj(_parsable=data, _encoding='ascii')
        me._repo_class = pt
        env = dict(zip(params, ['v', prefix, list(seps), str, None, may_end, '']))
        env['self'] = me
        seen.clear()
        miniexec.COUNTER[0] = 0
        Evaluator(env, hook, None).function(scan.node)
        return seen.get('range'), miniexec.COUNTER[0]
    sizes = (16, 256) if not ctx.thorough else (16, 256, 2048)
    n = 0
    try:
        base_rng, base_steps = run(0, b' ' + b't' * sizes[0], (' ', '/'), False)
        for seps in ((' ', '/'), ('/', ' '), (' ',)):
            for may_end in (False, True):
                ref = None
                for prefix in (0,) + sizes:
                    for tail_len in sizes:
                        n += 1
                        rng, steps = run(prefix, b' ' + b't' * tail_len, seps, may_end)
                        if rng != (prefix, prefix + len(item)):
                            report.add('C19.R3', scan.construct + '@origin', 'with %d bytes already consumed the item found is %r, expected %r: the scan does '
                                       'not start at the item offset' % (prefix, rng, (prefix, prefix + len(item))))
                            return True
                        if ref is None:
                            ref = steps
                        elif steps != ref:
                            what = 'bytes already consumed' if tail_len == sizes[0] else 'bytes after the separator'
                            report.add('C19.R3', scan.construct + '@work', 'finding a %d byte item takes %d evaluation steps with %d bytes before / %d after '
                                       'it and %d with %d / %d (separators %r): the work of one scan grows with the %s, an array of items is scanned '
                                       'in quadratic time' % (len(item), ref, 0, sizes[0], steps, prefix, tail_len, list(seps), what))
                            return True
    except Unsupported as e:
        report.undecided.append('C19.R3: the separator scanner left the subset the work tabulation understands (%s); decided on its syntax' % e)
        return False
    except Raised as e:
        report.add('C19.R3', scan.construct + '@work', 'the scanner raises %s on an item followed by a separator' % e.what)
        return True
    report.count('C19.R3', n)
    report.sample({'rule': 'C19.R3', 'scanner_runs': n, 'steps_per_scan': base_steps, 'sizes': list(sizes)})
    return True


def scan_origin(report, scan):
    """every construct of the separator scanner (and of the helper methods it hands the offset to) that walks over the input
    - a ``for`` over a range bounded by the input length, a find / index / split / partition of the input - starts at the
    item offset: _parse_string_array calls the scanner once per item, a scan from the beginning of the input makes the whole
    array quadratic"""
    params = [a.arg for a in scan.node.args.args]
    n_sites = 0
    work = [(scan, params[2] if len(params) > 2 else 'item_offset')]
    seen = set()

    def on_input(n):
        return 'self._parsable' in ast.unparse(n)
    while work:
        f, origin = work.pop()
        if (f.qualname, origin) in seen:
            continue
        seen.add((f.qualname, origin))
        report.touch(f)

        def starts_at_origin(n, origin=origin):
            return isinstance(n, ast.AST) and origin is not None and any(isinstance(x, ast.Name) and x.id == origin for x in ast.walk(n))
        for n in ast.walk(f.node):
            if isinstance(n, ast.For) and on_input(n.iter):
                n_sites += 1
                it = n.iter
                ok = isinstance(it, ast.Call) and isinstance(it.func, ast.Name) and it.func.id == 'range' and len(it.args) >= 2 and starts_at_origin(it.args[0])
                if not ok:
                    report.add('C19.R3', scan.construct + '@origin', 'separator scan does not start at the item offset (%s%s)' % (
                        ast.unparse(it), '' if f is scan else ' in ' + f.qualname))
            if isinstance(n, ast.Call) and isinstance(n.func, ast.Attribute) and n.func.attr in ('find', 'index', 'rfind', 'rindex', 'split', 'partition', 'count') \
                    and ast.unparse(n.func.value) == 'self._parsable':
                n_sites += 1
                if n.func.attr in ('split', 'partition') or len(n.args) < 2 or not starts_at_origin(n.args[1]):
                    report.add('C19.R3', scan.construct + '@origin', 'separator scan does not start at the item offset (%s%s)' % (
                        ast.unparse(n), '' if f is scan else ' in ' + f.qualname))
            if isinstance(n, ast.Call) and isinstance(n.func, ast.Attribute) and isinstance(n.func.value, ast.Name) and n.func.value.id in ('self', 'cls') \
                    and f.cls is not None:
                m = f.cls.resolve(n.func.attr)
                if m is None or m.module.external or m.name in ('_apply_item_class',):
                    continue
                mp = [a.arg for a in m.node.args.args if a.arg not in ('self', 'cls')]
                passed = None
                for i, a in enumerate(n.args):
                    if i < len(mp) and starts_at_origin(a):
                        passed = mp[i]
                for kw in n.keywords:
                    if kw.arg in mp and starts_at_origin(kw.value):
                        passed = kw.arg
                work.append((m, passed))
    if not n_sites:
        report.error('C19.R3: no construct scanning the input found in %s (anchor moved)' % scan.qualname)


def mentions_input(v, depth=0):
    if depth > 8:
        return False
    if isinstance(v, FieldV):
        return True
    if isinstance(v, Sym):
        return any(mentions_input(a, depth + 1) for a in v.args)
    return False


def loop_reassigns(node):
    if node is None:
        return False
    if isinstance(node, ast.While):
        names = {n.id for n in ast.walk(node.test) if isinstance(n, ast.Name)}
        attrs = {ast.unparse(n) for n in ast.walk(node.test) if isinstance(n, ast.Attribute)}
        for st in ast.walk(ast.Module(body=node.body, type_ignores=[])):
            if isinstance(st, (ast.Assign, ast.AugAssign)):
                ts = st.targets if isinstance(st, ast.Assign) else [st.target]
                for t in ts:
                    if isinstance(t, ast.Name) and t.id in names:
                        return True
            if isinstance(st, ast.Call) and isinstance(st.func, ast.Attribute) and st.func.attr.startswith('parse_') and \
                    any(ast.unparse(st.func.value) in a for a in attrs):
                return True
        return False
    return False


def has_exit(node):
    for st in ast.walk(ast.Module(body=node.body, type_ignores=[])):
        if isinstance(st, (ast.Break, ast.Raise, ast.Return)):
            return True
    return False


def assigned_in(loop, name):
    for st in ast.walk(ast.Module(body=loop.body, type_ignores=[])):
        if isinstance(st, (ast.Assign, ast.AugAssign)):
            ts = st.targets if isinstance(st, ast.Assign) else [st.target]
            if any(isinstance(t, ast.Name) and t.id == name for t in ts):
                return True
    return False


def text_item_progress(ctx, k):
    """items of text containers are parsed from a non-empty slice cut by the separator scan (parsed_length > 0 is
    checked in _parse_string_array before an item class is applied)"""
    lay = ctx.canon.layout(k, 'parse')
    return any(p.kind == 'text' for p in lay.result.parsers)


# ---- R5: no state is kept between parses --------------------------------------------------------------------

CLASS_STATE_MUTATORS = {'append', 'extend', 'insert', 'update', 'setdefault', 'pop', 'popitem', 'clear', 'remove', 'add', 'discard',
                        'sort', 'reverse', '__setitem__', '__delitem__', 'appendleft'}
# the registration API is the one place that is meant to write class level state (called by users at import time)
REGISTRATION_API = {'register_variant_parser'}


def class_rooted(node, f, model, aliases):
    """is ``node`` an expression that denotes (part of) class level state: cls.X, Class.X, type(self).X, subscripts of
    those, or a local alias of one"""
    b = node
    while True:
        if isinstance(b, ast.Subscript):
            b = b.value
        elif isinstance(b, ast.Call) and isinstance(b.func, ast.Attribute) and b.func.attr in ('get', 'setdefault', 'values', 'items', 'keys'):
            b = b.func.value        # a view / an entry of the container, not a copy
        elif isinstance(b, ast.Call) and isinstance(b.func, ast.Attribute) and isinstance(b.func.value, ast.Name) and b.func.value.id in ('cls', 'self') and \
                b.func.attr in ROOTED_RETURNS.get(id(model), ()):
            return True             # a method that hands out class level state itself
        else:
            break
    if isinstance(b, ast.Name) and b.id in aliases:
        return True
    if isinstance(b, ast.Attribute):
        v = b.value
        if isinstance(v, ast.Name):
            first = f.node.args.args[0].arg if f.node.args.args else None
            is_cls = first == 'cls' or any(isinstance(d, ast.Name) and d.id == 'classmethod' for d in f.node.decorator_list)
            if is_cls and v.id == first:
                return True
            r = model.resolve_name(f.module, v.id)
            return isinstance(r, ClassInfo)
        if isinstance(v, ast.Call) and isinstance(v.func, ast.Name) and v.func.id == 'type':
            return True
        if isinstance(v, ast.Attribute) and v.attr == '__class__':
            return True
    return False


ROOTED_RETURNS = {}


def rooted_returning_methods(model):
    """names of methods whose return value is (part of) class level state, e.g. _get_registered_variants"""
    out = set()
    ROOTED_RETURNS[id(model)] = out
    for f in model.functions():
        if f.module.external or f.cls is None:
            continue
        for n in ast.walk(f.node):
            if isinstance(n, ast.Return) and n.value is not None and isinstance(n.value, (ast.Attribute, ast.Subscript)) and class_rooted(n.value, f, model, ()):
                out.add(f.name)
    return out


def revalidating_setters(ctx, report, RULE='C19.R12'):
    """A property setter that walks the value it is given (validates every member of a list) is written to be called once.  A loop
    that grows such an attribute by re-assigning it - ``tag.subtags += [item]``, ``obj.items = obj.items + [x]`` - calls the setter
    with the whole list on every pass: item k pays for the k - 1 before it, the work is quadratic in the number of items although
    every line looks linear.  Every assignment inside a loop whose target is an attribute that some class of the package defines
    as a property with a looping setter, and whose value is built from the same attribute, is reported."""
    model = ctx.model
    report.rule(RULE, 'no loop grows an attribute by re-assigning it through a property setter that walks the whole value')
    looping = {}
    for c in model.repo_classes():
        for name, g in c.methods.items():
            if not name.endswith('.setter'):
                continue
            params = [a.arg for a in g.node.args.args]
            if len(params) < 2:
                continue
            walks = any(isinstance(n, (ast.For, ast.comprehension)) and any(isinstance(y, ast.Name) and y.id == params[1] for y in ast.walk(n.iter))
                        for n in ast.walk(g.node)) or \
                any(isinstance(n, ast.Call) and isinstance(n.func, ast.Name) and n.func.id in ('map', 'filter', 'all', 'any', 'sorted', 'sum', 'min', 'max', 'set',
                                                                                              'frozenset', 'list', 'tuple', 'reversed', 'enumerate', 'zip')
                    and any(isinstance(a, ast.Name) and a.id == params[1] for a in n.args) for n in ast.walk(g.node))
            if walks:
                looping.setdefault(name[:-len('.setter')], []).append(g)
    n = 0
    for f in model.functions():
        if f.module.external:
            continue
        for loop in ast.walk(f.node):
            if not isinstance(loop, (ast.For, ast.While)):
                continue
            for st in ast.walk(loop):
                target = value = None
                if isinstance(st, ast.AugAssign) and isinstance(st.target, ast.Attribute):
                    target, value = st.target, None
                elif isinstance(st, ast.Assign) and len(st.targets) == 1 and isinstance(st.targets[0], ast.Attribute):
                    target, value = st.targets[0], st.value
                if target is None:
                    continue
                n += 1
                if target.attr not in looping:
                    continue
                if value is not None and ast.unparse(target) not in ast.unparse(value):
                    continue        # a fresh value per pass, not the grown one
                if isinstance(target.value, ast.Name) and target.value.id == 'self' and f.cls is not None and \
                        f.cls.resolve(target.attr + '.setter') is None:
                    continue
                g = looping[target.attr][0]
                report.add(RULE, '%s@regrown[%s]' % (f.construct, ast.unparse(target)[:40]),
                           '%s is re-assigned with its grown value on every pass of a loop; its setter (%s) walks the whole value each time: '
                           'the work grows with the square of the number of items' % (ast.unparse(target), g.construct))
    report.count(RULE, n + len(looping))
    report.sample({'rule': RULE, 'setters_that_walk_their_value': sorted(looping), 'attribute_assignments_inside_loops': n})
    if not looping:
        report.notes.append('%s: no property setter walks its value on this tree: nothing a loop could re-validate' % RULE)


def reparsed_buffers(ctx, report, RULE='C19.R11'):
    """A loop that hands a buffer to a parser on every pass makes progress only if the buffer shrinks from the front: the variable is
    re-bound to a suffix of itself (``rest = rest[n:]``).  A loop that re-binds it to anything else - the part already read plus an
    edited rest - parses the same octets again on every pass: a field that needs k passes costs k times its length.  Every loop of
    the package in which a variable is both handed to a parsing call and re-bound is read."""
    report.rule(RULE, 'a buffer that is parsed inside a loop and re-bound there is re-bound to a suffix of itself (no pass reads the octets of an earlier one again)')
    n = 0

    def parsing_call(call, params):
        fn = call.func
        text = ast.unparse(fn)
        last = text.split('.')[-1]
        return last in ('ParserText', 'ParserBinary') or 'parse' in last.lower() or (isinstance(fn, ast.Name) and fn.id in params)
    def scan(fnode, construct, add):
        """-> (loops read, loops that carry a parsed buffer from pass to pass)"""
        loops = carried = 0
        params = {a.arg for a in fnode.args.args + fnode.args.kwonlyargs}
        for loop in ast.walk(fnode):
            if not isinstance(loop, (ast.While, ast.For)):
                continue
            loops += 1
            handed = {}
            for x in ast.walk(loop):
                if isinstance(x, ast.Call) and x.args and isinstance(x.args[0], ast.Name) and parsing_call(x, params):
                    handed.setdefault(x.args[0].id, x)
            for name, call in sorted(handed.items()):
                binds = [st for st in ast.walk(loop) if isinstance(st, ast.Assign) and any(isinstance(t, ast.Name) and t.id == name for t in st.targets)]
                if not binds:
                    continue
                if not all(any(isinstance(y, ast.Name) and y.id == name for y in ast.walk(st.value)) for st in binds):
                    continue        # bound afresh on every pass (an item cut out of the input), not carried from pass to pass
                carried += 1
                for st in binds:
                    v = st.value
                    suffix = isinstance(v, ast.Subscript) and isinstance(v.value, ast.Name) and v.value.id == name and isinstance(v.slice, ast.Slice) and \
                        v.slice.lower is not None and v.slice.upper is None and v.slice.step is None
                    if not suffix:
                        add(RULE, '%s@reparse[%s]' % (construct, name),
                            '%s is parsed by %s on every pass of the loop and re-bound there to %s, which is not a suffix of it: each pass reads the '
                            'octets of the earlier passes again (work grows with the square of the number of passes)' % (
                                name, ast.unparse(call.func)[:40], ast.unparse(v)[:70]))
                        break
        return loops, carried

    # the rule is read on two loops of its own first (the package may hold none that carries a buffer): it must flag the first, not the second
    seen = []
    sample = ast.parse(REPARSE_SAMPLE)
    for fn in sample.body:
        scan(fn, 'sample:' + fn.name, lambda rule, construct, detail: seen.append(construct))
    if seen != ['sample:rebuilt@reparse[rest]']:
        report.errors.append('%s: the rule does not tell its own two sample loops apart (%s)' % (RULE, seen))
    loops = 0
    for f in ctx.model.functions():
        if f.module.external:
            continue
        a, b = scan(f.node, f.construct, report.add)
        loops += a
        n += b
    report.count(RULE, loops)
    report.sample({'rule': RULE, 'loops_read': loops, 'loops_that_carry_a_parsed_buffer': n})
    report.floor(RULE, 50, 'loops read')


REPARSE_SAMPLE = """
def rebuilt(rest, parse):
    while rest:
        item, n = parse(rest)
        rest = rest[:0] + rest[n:].lstrip()

def suffix(rest, parse):
    while rest:
        item, n = parse(rest)
        rest = rest[n:]
"""


MUTATING_METHODS = ('append', 'extend', 'insert', 'pop', 'remove', 'clear', 'sort', 'reverse', 'update', 'setdefault', 'add', 'discard', 'popitem',
                    'appendleft', 'popleft')


def module_level_state(ctx, report, RULE='C19.R10', title=None):
    """A container bound at module level (``_CACHE = {}``) that a function of the package changes is state that outlives the call:
    what a parse returns or costs then depends on what was parsed before (a memo keyed by less than everything the entry depends on
    answers for another input).  Every function is read: item stores, deletions and mutating method calls on a module level
    container - directly or through a local bound to an element of it - are findings; reading such a table is not."""
    from .c13 import is_mutable_container
    model = ctx.model
    report.rule(RULE, title or 'no function changes a container that lives at module level (results and work independent of earlier calls)')
    n = 0
    for m in model.repo_modules():
        tables = {name for name, b in m.bindings.items() if b[0] == 'var' and isinstance(b[1], ast.AST) and is_mutable_container(b[1])}
        n += len(tables)
        if not tables:
            continue
        for f in model.functions():
            if f.module is not m:
                continue
            local_names = {a.arg for a in f.node.args.args + f.node.args.kwonlyargs}
            shadowed = {t.id for st in ast.walk(f.node) if isinstance(st, ast.Assign) for t in st.targets if isinstance(t, ast.Name)} | local_names
            roots = {t for t in tables if t not in shadowed or any(isinstance(g, ast.Global) and t in g.names for g in ast.walk(f.node))}
            # locals bound to an element of a table (``words = _TABLE.setdefault(k, {})`` / ``_TABLE[k]``)
            aliases = set()
            for st in ast.walk(f.node):
                if isinstance(st, ast.Assign) and len(st.targets) == 1 and isinstance(st.targets[0], ast.Name):
                    v = st.value
                    base = v
                    while isinstance(base, (ast.Subscript, ast.Call, ast.Attribute)):
                        base = base.value if isinstance(base, (ast.Subscript, ast.Attribute)) else base.func
                    if isinstance(base, ast.Name) and base.id in roots and isinstance(v, (ast.Subscript, ast.Call)):
                        aliases.add(st.targets[0].id)
            watched = roots | aliases
            for x in ast.walk(f.node):
                how = None
                if isinstance(x, ast.Subscript) and isinstance(x.ctx, (ast.Store, ast.Del)):
                    b = x.value
                    while isinstance(b, ast.Subscript):
                        b = b.value
                    if isinstance(b, ast.Name) and b.id in watched:
                        how = '%s is stored into' % ast.unparse(x)[:40]
                elif isinstance(x, ast.Call) and isinstance(x.func, ast.Attribute) and x.func.attr in MUTATING_METHODS:
                    b = x.func.value
                    while isinstance(b, ast.Subscript):
                        b = b.value
                    if isinstance(b, ast.Name) and b.id in watched:
                        how = '%s()' % ast.unparse(x.func)[:40]
                if how:
                    root = b.id if b.id in roots else 'reached through %s' % b.id
                    report.add(RULE, '%s@module-state[%s]' % (f.construct, root),
                               '%s: the module level container %s is changed by a function of the package, so a later call sees what an earlier '
                               'one left there' % (how, root))
                    break
    report.count(RULE, n + len(list(model.functions())))
    report.floor(RULE, 1000, 'functions and module level containers')


def stateless_parsing(ctx, report, RULE='C19.R5', modules=None, allow_memo=True,
                      title='no function outside the registration API writes class level state (work independent of earlier parses)'):
    """a parse must cost the same whatever was parsed before: outside the registration API no function of the package
    assigns to class level state or mutates a container it reached through a class attribute (directly or through a
    local alias). Reviewed exception: the lazily created, empty per-class registry of _get_registered_variants"""
    from .c14 import class_state_stores
    model = ctx.model
    report.rule(RULE, title)
    rooted_returning_methods(model)
    for f in model.functions():
        if f.module.external or f.name in REGISTRATION_API:
            continue
        if modules is not None and not any(f.module.path.endswith(m) for m in modules):
            continue
        report.count(RULE)
        aliases = set()
        for n in ast.walk(f.node):
            if isinstance(n, ast.Assign) and len(n.targets) == 1 and isinstance(n.targets[0], ast.Name) and \
                    isinstance(n.value, (ast.Attribute, ast.Subscript, ast.Call)) and class_rooted(n.value, f, model, ()):
                # a method object or a scalar read is not a container alias: only subscripts / attributes that are later mutated matter
                aliases.add(n.targets[0].id)
        init = memo_guarded(f, model) if allow_memo else set()
        for what, node in class_state_stores(f, model):
            if id(node) in init:
                report.sample({'rule': RULE, 'function': f.construct, 'verdict': 'memoisation',
                               'reason': '%s is written once, under a guard that tests that it is not there yet: bounded and idempotent' % what}, 6)
                continue
            report.add(RULE, '%s@store[%s]' % (f.construct, what),
                       'class level state %s is written on a path that is not the registration API: what a parse costs (or returns) then depends on earlier parses' % what)
        for n in ast.walk(f.node):
            if isinstance(n, ast.Call) and isinstance(n.func, ast.Attribute) and n.func.attr in CLASS_STATE_MUTATORS and \
                    class_rooted(n.func.value, f, model, aliases) and id(n) not in init:
                report.add(RULE, '%s@mutate[%s]' % (f.construct, ast.unparse(n.func)),
                           'a container reached through class level state is mutated (%s): it grows or changes from one parse to the next' % ast.unparse(n)[:70])


def memo_guarded(f, model):
    """ids of the nodes that belong to the one-time initialisation of a memo entry: inside ``if <key> not in <class
    state>:`` / ``if <class state> is None:`` blocks, or the store ``T[key] = ...`` that follows a ``try: return T[key]`` /
    ``except KeyError`` probe of the same table.  In both forms the key has to name every parameter the function uses
    (``cls`` / ``self`` included when something is dispatched on them): an entry computed for one class or argument and
    looked up for another is a wrong answer, not a cache hit."""
    out = set()
    params = [a.arg for a in f.node.args.args]
    root = params[0] if params and params[0] in ('cls', 'self') else None

    def used_params(skip):
        used = set()
        for n in ast.walk(f.node):
            if id(n) in skip:
                continue
            if isinstance(n, ast.Name) and isinstance(n.ctx, ast.Load) and n.id in params:
                used.add(n.id)
        return used

    def key_covers(table, key):
        # names the table expression itself needs (cls._TABLE) do not count as uses of cls
        skip = set()
        for n in ast.walk(f.node):
            if isinstance(n, ast.Attribute) and ast.unparse(n) == ast.unparse(table):
                for x in ast.walk(n):
                    skip.add(id(x))
        need = used_params(skip)
        have = {x.id for x in ast.walk(key) if isinstance(x, ast.Name)}
        if any(isinstance(x, ast.Call) and isinstance(x.func, ast.Name) and x.func.id == 'type' for x in ast.walk(key)):
            have.add(root)
        return need <= have
    # form (b): try: return T[key] / except KeyError ... T[key] = value
    for t in ast.walk(f.node):
        if isinstance(t, ast.Try) and any(h.type is not None and 'KeyError' in ast.unparse(h.type) for h in t.handlers):
            probes = [x for b in t.body for x in ast.walk(b) if isinstance(x, ast.Subscript) and isinstance(x.ctx, ast.Load) and class_rooted(x.value, f, model, ())]
            for pr in probes:
                for n in ast.walk(f.node):
                    if isinstance(n, ast.Assign) and len(n.targets) == 1 and isinstance(n.targets[0], ast.Subscript) and \
                            ast.unparse(n.targets[0]) == ast.unparse(pr) and key_covers(pr.value, pr.slice):
                        for x in ast.walk(n):
                            out.add(id(x))
    for n in ast.walk(f.node):
        if isinstance(n, ast.If) and isinstance(n.test, ast.Compare) and len(n.test.ops) == 1:
            op, right = n.test.ops[0], n.test.comparators[0]
            guard = (isinstance(op, ast.NotIn) and class_rooted(right, f, model, ())) or \
                    (isinstance(op, ast.Is) and isinstance(right, ast.Constant) and right.value is None and class_rooted(n.test.left, f, model, ()))
            if guard and isinstance(op, ast.NotIn) and not key_covers(right, n.test.left):
                guard = False       # the key leaves out something the entry depends on
            if guard:
                for st in n.body:
                    for x in ast.walk(st):
                        out.add(id(x))
    # form (c): T.setdefault(key, <a new empty container>) - the one-call spelling of ``if key not in T: T[key] = <empty>``
    for n in ast.walk(f.node):
        if isinstance(n, ast.Call) and isinstance(n.func, ast.Attribute) and n.func.attr == 'setdefault' and len(n.args) == 2 and \
                class_rooted(n.func.value, f, model, ()) and key_covers(n.func.value, n.args[0]):
            d = n.args[1]
            empty = (isinstance(d, (ast.List, ast.Dict, ast.Set, ast.Tuple)) and not getattr(d, 'elts', getattr(d, 'keys', []))) or \
                (isinstance(d, ast.Call) and not d.args and not d.keywords and ast.unparse(d.func).split('.')[-1] in ('OrderedDict', 'dict', 'list', 'set', 'defaultdict'))
            if empty:
                for x in ast.walk(n):
                    out.add(id(x))
    return out


def reviewed_lazy_registry(f, node):
    if f.name != '_get_registered_variants' or not isinstance(node, ast.Subscript):
        return False
    parent = [n for n in ast.walk(f.node) if isinstance(n, ast.If) and any(node is t for st in n.body if isinstance(st, ast.Assign) for t in st.targets)]
    if not parent:
        return False
    st = [x for x in parent[0].body if isinstance(x, ast.Assign)][0]
    empty = isinstance(st.value, ast.Call) and not st.value.args and not st.value.keywords
    return empty and 'not in' in ast.unparse(parent[0].test)


def linear_scans_in_loops(ctx, report):
    """R6: list.remove / list.index / list.count compare the argument with every preceding element through ``==``; for the
    attrs classes of this package that is an interpreter-level __eq__ per element. Inside a loop over parsed items the
    work is quadratic in the number of items (32767 cipher suites fit in one hello)."""
    model = ctx.model
    report.rule('C19.R6', 'no element-wise list search (remove / index / count) inside a loop of a parse function')
    n_loops = 0
    for f in model.functions():
        if f.module.external or not f.name.lstrip('_').startswith('parse'):
            continue
        for lp in ast.walk(f.node):
            if not isinstance(lp, (ast.For, ast.While, ast.ListComp, ast.GeneratorExp, ast.SetComp, ast.DictComp)):
                continue
            n_loops += 1
            body = lp.body if isinstance(lp, (ast.For, ast.While)) else [lp]
            for st in body:
                for n in ast.walk(st):
                    if isinstance(n, ast.Call) and isinstance(n.func, ast.Attribute) and n.func.attr in ('remove', 'index', 'count') and len(n.args) == 1 and \
                            not isinstance(n.func.value, ast.Constant):
                        report.add('C19.R6', '%s@scan[%s]' % (f.construct, ast.unparse(n.func)),
                                   '%s inside a loop compares against every earlier element: quadratic work in the number of parsed items' % ast.unparse(n)[:60])
    # iterating, inside a loop, over the list that very loop appends to: every pass walks everything collected so far
    for f in model.functions():
        if f.module.external or not f.name.lstrip('_').startswith('parse'):
            continue
        for lp in ast.walk(f.node):
            if not isinstance(lp, (ast.For, ast.While)):
                continue
            grown = {n.func.value.id for st in lp.body for n in ast.walk(st)
                     if isinstance(n, ast.Call) and isinstance(n.func, ast.Attribute) and n.func.attr in ('append', 'extend', 'insert') and isinstance(n.func.value, ast.Name)}
            if not grown:
                continue
            for st in lp.body:
                for n in ast.walk(st):
                    its = []
                    if isinstance(n, ast.For):
                        its.append(n.iter)
                    elif isinstance(n, (ast.ListComp, ast.SetComp, ast.GeneratorExp, ast.DictComp)):
                        its.extend(g.iter for g in n.generators)
                    elif isinstance(n, ast.Call) and isinstance(n.func, ast.Name) and n.func.id in ('set', 'sorted', 'sum', 'any', 'all', 'list', 'tuple', 'max', 'min') and n.args:
                        its.append(n.args[0])
                    elif isinstance(n, ast.Compare) and any(isinstance(o, (ast.In, ast.NotIn)) for o in n.ops):
                        its.extend(n.comparators)
                    for it in its:
                        if isinstance(it, ast.Name) and it.id in grown:
                            report.add('C19.R6', '%s@rescan[%s]' % (f.construct, it.id),
                                       'every pass of the loop walks the whole list %s that the same loop keeps appending to: quadratic work in the number of parsed items' % it.id)
    report.count('C19.R6', n_loops)
    report.floor('C19.R6', 30, 'loops in parse functions')


# ---- R8: recursion between functions --------------------------------------------------------------------------------------------

def function_recursion(ctx, report, RULE='C19.R8'):
    """the call graph of the parse side (methods called through self / cls resolved through the static MRO, module level functions):
    a function that can reach itself recurses once per item / octet of its input unless the cycle is cut by an argument that
    switches the recursive branch off (the fallback parse passes ``None`` as fallback class - C19.R1 checks that cut).  Serialiser
    functions (Markdown / JSON traversal follows the nesting of the object, not the length of an input) are not parse side."""
    model = ctx.model
    report.rule(RULE, 'no function on the parse side reaches itself through calls (recursion depth grows with the input)')
    funcs = [f for f in model.functions() if not f.module.external]
    by_node = {id(f.node): f for f in funcs}

    def callees(f):
        out = []
        for n in ast.walk(f.node):
            if not isinstance(n, ast.Call):
                continue
            if isinstance(n.func, ast.Attribute) and isinstance(n.func.value, ast.Name) and n.func.value.id in ('self', 'cls') and f.cls is not None:
                g = f.cls.resolve(n.func.attr)
                if g is not None and not g.module.external:
                    out.append(g)
            elif isinstance(n.func, ast.Name):
                r = model.resolve_name(f.module, n.func.id)
                g = by_node.get(id(getattr(r, 'node', None)))
                if g is not None:
                    out.append(g)
        return out
    graph = {id(f): (f, callees(f)) for f in funcs}
    CUT = {('ParserText._apply_item_class', 'ParserText._parse_string_until_separator')}     # cut by fallback_class=None (C19.R1)

    def parse_side(f):
        n = f.name.lstrip('_')
        return not (n.startswith(('markdown', 'as_markdown', 'json', 'asdict', 'compose', 'get_ordered')) or f.name in ('_asdict', '_as_markdown'))
    seen_cycles = set()
    for f in funcs:
        if not parse_side(f):
            continue
        report.count(RULE)
        # depth first search for a path back to f
        stack, visited = [(f, [f])], set()
        while stack:
            g, path = stack.pop()
            for h in graph[id(g)][1]:
                if (g.qualname, h.qualname) in CUT or (h.qualname, g.qualname) in CUT:
                    continue
                if h is f:
                    key = tuple(sorted(x.qualname for x in path))
                    if key not in seen_cycles and all(parse_side(x) for x in path):
                        seen_cycles.add(key)
                        report.add(RULE, '%s@recursion' % f.construct, 'the function reaches itself through %s: one stack frame per round, so the recursion depth is set by the '
                                   'input (a list of a thousand items ends in RecursionError)' % ' > '.join(x.qualname for x in path + [f]))
                    continue
                if id(h) not in visited and len(path) < 6:
                    visited.add(id(h))
                    stack.append((h, path + [h]))
    report.floor(RULE, 400, 'functions of the parse side')
