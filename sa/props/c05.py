"""C05 -- re-serialising an accepted input is a stable canonical form (structural necessary conditions)."""
from __future__ import annotations

import ast

from ..compare import compare_class
from ..model import ClassInfo, dotted
from .c01 import classify, diff_key

META = {
    'explanation': (
        'Three structural necessary conditions of "parse, compose, parse again gives the same object and bytes"; the '
        'idempotence itself is value level and not decided. R1 parse range within compose domain (from the C01 layouts, parse '
        'side as the reference): every repetition and every optional branch the parser accepts has a counterpart in the '
        'composer and no field is parsed wider than it is composed. R2 zone normalisation: a strftime/compose_date_time whose '
        'format carries a literal zone designator (GMT, Z, UTC, +0000) must be applied to a value normalised to UTC on every '
        'path (astimezone(UTC) / utctimetuple), because the parser (dateutil) accepts other offsets. R3 marker folding is a '
        'bijection: each cipher suite the client hello parser folds into a boolean is not also kept in the list, and compose '
        'emits it exactly when the boolean is set.'),
    'assumptions': ['equality after the second parse for all accepted spellings (naive vs aware datetimes, URL normalisation, '
                    'base64 canonical form, float formatting) is not decided'],
    'trusted_base': ['python ast', 'sa.compare (C01 layouts)'],
    'exhaustive': True,
}

ZONE_LITERALS = ('GMT', 'UTC', "Z'", '+0000', '+00:00')


def check(ctx, report):
    model = ctx.model
    report.rule('C05.R1', 'every repetition / optional branch / width the parser accepts can be composed')
    report.rule('C05.R2', 'literal zone designator only after normalisation to UTC')
    report.rule('C05.R3', 'SCSV fold (parse) and unfold (compose) are inverse')
    import json, os
    here = os.path.dirname(os.path.dirname(os.path.abspath(__file__)))
    with open(os.path.join(here, 'reviewed.json')) as fh:
        reviewed = json.load(fh).get('C01.R1', {})
    with open(os.path.join(here, 'nondsl.json')) as fh:
        nondsl = json.load(fh)
    for c in model.concrete_parsables():
        if classify(ctx, c) != 'binary' or c.name in reviewed or c.name in nondsl:
            continue
        cm = compare_class(c, ctx.canon)
        report.count('C05.R1')
        for d in cm.diffs:
            a = d.a
            if a is None:
                continue
            wider = d.kind == 'width' and a.kind == 'u' and d.b is not None and isinstance(a.w, int) and isinstance(d.b.w, int) and a.w > d.b.w
            structural = a.kind in ('repeat', 'alt', 'tryalt') and d.kind in ('shape', 'missing')
            if wider or structural:
                report.add('C05.R1', '%s@%s' % (c.construct, diff_key(d)),
                           'the parser accepts %s here, the composer cannot produce it: an accepted input cannot be re-serialised (%s)' % (a.sig(), d.detail))
    # ---- R2
    for f in model.functions():
        for n in ast.walk(f.node):
            if not isinstance(n, ast.Call) or not isinstance(n.func, ast.Attribute):
                continue
            fmt = None
            recv = None
            if n.func.attr == 'strftime' and n.args:
                fmt, recv = n.args[0], n.func.value
            elif n.func.attr == 'compose_date_time' and len(n.args) >= 2:
                fmt, recv = n.args[1], n.args[0]
            if fmt is None:
                continue
            report.count('C05.R2')
            report.touch(f)
            if isinstance(fmt, ast.Constant) and isinstance(fmt.value, str):
                if not any(z in repr(fmt.value) or z in fmt.value for z in ZONE_LITERALS):
                    continue
                if normalised_to_utc(model, f, recv, n):
                    report.sample({'rule': 'C05.R2', 'site': f.construct, 'format': fmt.value, 'verdict': 'value normalised to UTC first'})
                    continue
                report.add('C05.R2', f.construct + '@zone-literal',
                           'the format %r prints a fixed zone designator but the value (%s) is not converted to UTC first: an accepted '
                           'date with another offset is re-serialised as a different instant' % (fmt.value, ast.unparse(recv)))
    # ---- R3
    c = model.cls('TlsHandshakeClientHello')
    p, q = c.methods.get('_parse'), c.methods.get('compose')
    if p is None or q is None:
        report.error('C05.R3: TlsHandshakeClientHello._parse/compose vanished')
        return
    report.touch(p)
    report.touch(q)
    folds = {}
    for n in ast.walk(p.node):
        if isinstance(n, ast.For):
            chain = [s for s in n.body if isinstance(s, ast.If)]
            node = chain[0] if chain else None
            while node is not None:
                t = ast.unparse(node.test)
                marker = None
                for m in ('FALLBACK_SCSV', 'EMPTY_RENEGOTIATION_INFO_SCSV'):
                    if m in t:
                        marker = m
                if marker:
                    sets = [ast.unparse(s.targets[0]) for s in node.body if isinstance(s, ast.Assign) and isinstance(s.value, ast.Constant) and s.value.value is True]
                    appends = [s for s in ast.walk(ast.Module(body=node.body, type_ignores=[])) if isinstance(s, ast.Call) and isinstance(s.func, ast.Attribute) and s.func.attr == 'append']
                    folds[marker] = (sets, bool(appends))
                if len(node.orelse) == 1 and isinstance(node.orelse[0], ast.If):
                    node = node.orelse[0]
                else:
                    final = node.orelse
                    keeps = any(isinstance(s, ast.Call) and isinstance(s.func, ast.Attribute) and s.func.attr == 'append'
                                for s in ast.walk(ast.Module(body=final, type_ignores=[])))
                    folds['<else>'] = ([], keeps)
                    node = None
    for marker in ('FALLBACK_SCSV', 'EMPTY_RENEGOTIATION_INFO_SCSV'):
        report.count('C05.R3', 2)
        flag = marker.lower()
        if marker not in folds:
            report.add('C05.R3', p.construct + '@fold[%s]' % marker, 'the marker suite %s is no longer folded into a flag by the parser' % marker)
            continue
        sets, kept = folds[marker]
        if flag not in sets:
            report.add('C05.R3', p.construct + '@fold[%s]' % marker, 'the branch that recognises %s does not set %s' % (marker, flag))
        if kept:
            report.add('C05.R3', p.construct + '@fold[%s]' % marker, '%s is folded into the flag and also kept in the list: every parse/compose cycle duplicates it' % marker)
        emits = False
        for n in ast.walk(q.node):
            if isinstance(n, ast.If) and ast.unparse(n.test) == 'self.' + flag and not n.orelse:
                if any(marker in ast.unparse(s) and 'append' in ast.unparse(s) for s in n.body):
                    emits = True
        if not emits:
            report.add('C05.R3', q.construct + '@unfold[%s]' % marker, 'compose does not emit %s exactly when self.%s is set' % (marker, flag))
    if not folds.get('<else>', ([], False))[1]:
        report.add('C05.R3', p.construct + '@fold[else]', 'ordinary cipher suites are not kept by the folding loop')
    report.floor('C05.R1', 150, 'binary classes')
    report.floor('C05.R2', 2, 'date formatting sites')


def callee_normalises(model, call):
    """compose_date_time itself converts its value parameter to UTC before formatting"""
    ct = model.cls('ComposerText')
    g = ct.methods.get('compose_date_time')
    if g is None or len(g.params) < 2:
        return False
    p = g.params[1]
    seen_norm = False
    for st in g.node.body:
        for n in ast.walk(st):
            if isinstance(n, ast.Assign) and ast.unparse(n.targets[0]) == p and 'astimezone(' in ast.unparse(n.value) and \
                    ('UTC' in ast.unparse(n.value) or 'utc' in ast.unparse(n.value)):
                seen_norm = True
            if isinstance(n, ast.Call) and isinstance(n.func, ast.Attribute) and n.func.attr == 'strftime':
                return seen_norm and ast.unparse(n.func.value) == p
    return False


def normalised_to_utc(model, f, recv, call):
    """the formatted value is, on every path of the function, the result of astimezone(<UTC>) (possibly guarded by
    `tzinfo is not None`) or the function is compose_date_time's own body delegating to a caller we check separately"""
    if isinstance(call.func, ast.Attribute) and call.func.attr == 'compose_date_time' and callee_normalises(model, call):
        return True
    src = ast.unparse(f.node)
    name = ast.unparse(recv)
    if 'astimezone(' not in src and 'utctimetuple' not in src:
        # formatting helper that receives the value as a parameter: its callers are checked at their own call sites
        return False
    for n in ast.walk(f.node):
        if isinstance(n, ast.Assign) and ast.unparse(n.targets[0]) == name and 'astimezone(' in ast.unparse(n.value) and \
                ('UTC' in ast.unparse(n.value) or 'utc' in ast.unparse(n.value)):
            return True
    return 'astimezone(' in ast.unparse(recv) and ('UTC' in ast.unparse(recv) or 'utc' in ast.unparse(recv))
