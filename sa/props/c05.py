"""C05 -- re-serialising an accepted input is a stable canonical form (structural necessary conditions)."""
from __future__ import annotations

import ast

from ..compare import compare_class
from ..model import ClassInfo, dotted
from .c01 import classify, diff_key

META = {
    'explanation': (
        'Three structural necessary conditions of "parse, compose, parse again gives the same object and bytes"; the '
        'idempotence itself is value level and not decided. R1 parse range within compose domain (from the C01 layouts, parse '
        'side as the reference): every repetition and every optional branch the parser accepts has a counterpart in the '
        'composer and no field is parsed wider than it is composed. R2 zone normalisation: a strftime/compose_date_time whose '
        'format carries a literal zone designator (GMT, Z, UTC, +0000) must be applied to a value normalised to UTC on every '
        'path (astimezone(UTC) / utctimetuple), because the parser (dateutil) accepts other offsets. R3 marker folding is a '
        'bijection: each cipher suite the client hello parser folds into a boolean is not also kept in the list, and compose '
        'emits it exactly when the boolean is set.'
        ' R4: optional fields keep None through their converter. R5: tabulated name[=value] composers. R6: URLs are rebuilt from all their parts.'),
    'assumptions': ['equality after the second parse for all accepted spellings (URL normalisation, base64 canonical form, float formatting) is not decided '
                    'beyond the tabulated families (text dates, JSON seconds, IDNA names, DNSKEY key fields)', 'the model of dateutil.parser.parse covers the spellings of the table only'],
    'trusted_base': ['python ast', 'sa.compare (C01 layouts)'],
    'exhaustive': True,
}

META['explanation'] += ' ' + "R7: TXT chunking (see C01.R8). R8: the SPF network composer evaluated for both address families (prefix omitted only at the family's maximum). R9: compose has no effect on the object (effect analysis of C13.R1 restricted to compose)."
META['explanation'] += ' ' + 'R10: timestamp / flag primitives (C11.R4/R5). R11: parse_date_time and every function printing a date with a literal zone evaluated over date texts with a model of dateutil (naive / aware / offset / fraction / end of calendar). R12: convert / _get_value_as_simple_type of the component kinds that change type, on JSON numbers. R13: DNSKEY RSA and DSA key fields as parse-compose-parse pipelines. R1 acceptance: DNS names and SNI host names evaluated with the real idna codec - accepted means composable.'

META['explanation'] += ' ' + 'R14: numeric presence by truth value (shared with C01.R14). R15: ECDSA points (shared with C07.R12).'

META['explanation'] += ' ' + 'R16: no local-time API (shared with C11.R3). R17: identification string, parser and composer evaluated (shared with C07.R6). R18: no strip / case mapping / replace inside the composer primitives (shared with C11.R12). R19: JSON valued fields write every member they hold (shared with C18.R13).'

ZONE_LITERALS = ('GMT', 'UTC', "Z'", '+0000', '+00:00')


def check(ctx, report):
    model = ctx.model
    report.rule('C05.R1', 'every repetition / optional branch / width the parser accepts can be composed')
    report.rule('C05.R2', 'literal zone designator only after normalisation to UTC')
    report.rule('C05.R3', 'SCSV fold (parse) and unfold (compose) are inverse')
    # a composer that edits the object it serialises cannot be stable: the second compose starts from another value
    from .c13 import observers_pure
    report.rule('C05.R9', 'compose leaves the object as it was (else the second composition differs from the first)')
    observers_pure(ctx, report, RULE='C05.R9', names=['compose'])
    report.floor('C05.R9', 120, 'composer definitions')
    absent_stays_absent(ctx, report)
    url_projection(ctx, report)
    # a timestamp that is read back as another instant composes to other bytes than were accepted (shared with C11.R5)
    from .c11 import flags_and_timestamps
    report.rule('C05.R10', 'timestamps and flag sets: the value read composes to the bytes it was read from, over the tabulated widths')
    flags_and_timestamps(ctx, report, R4='C05.R10', R5='C05.R10')
    text_dates(ctx, report)
    json_member_round_trip(ctx, report)
    from .c01 import number_presence_by_truth_value
    number_presence_by_truth_value(ctx, report, RULE='C05.R14')
    from .c08 import rsa_key_round_trip
    report.rule('C05.R13', 'DNSKEY RSA and DSA fields: every exponent / modulus / prime encoding that is accepted is composed to bytes that read as the same key')
    rsa_key_round_trip(ctx, report, rule='C05.R13')
    from .c08 import dss_key_round_trip
    dss_key_round_trip(ctx, report, rule='C05.R13')
    from .c08 import dnskey_round_trip
    dnskey_round_trip(ctx, report, rule='C05.R13')
    # an ECDSA host key whose coordinates start with zero octets is composed with the width of the curve, so the accepted blob is
    # the blob that comes back (evaluation shared with C07.R12)
    from .c07 import ecdsa_points
    ecdsa_points(ctx, report, RULE='C05.R15')
    # an instant that is read with the zone of the machine and written as UTC moves by the offset on every parse / compose cycle:
    # the canonical form never settles (rule shared with C11.R3)
    from .c11 import local_time_apis
    report.rule('C05.R16', 'no local-time API on the way from bytes to object and back (an instant does not move from one cycle to the next)')
    local_time_apis(ctx, report, RULE='C05.R16')
    # the identification string: an empty comment is not "no comment" (tabulation shared with C07.R6)
    from .c07 import banner
    banner(ctx, report, RULE='C05.R17')
    # what the composer primitives join is what the items hold (rule shared with C11.R12)
    # JSON valued fields: the canonical text holds every member the object holds (evaluation shared with C18.R13)
    from .c18 import json_fields_composer
    json_fields_composer(ctx, report, RULE='C05.R19')
    from .c11 import octets_unchanged
    octets_unchanged(ctx, report, RULE='C05.R18', classes=('ComposerBase', 'ComposerBinary', 'ComposerText'),
                     title='the composer primitives write the items they are given unchanged (no strip / case mapping / replace on composed data)')
    from .c18 import name_value_composers
    name_value_composers(ctx, report, rule='C05.R5')
    from .c08 import txt_chunks
    txt_chunks(ctx, report, rule='C05.R7')
    from .c18 import spf_network_composer
    spf_network_composer(ctx, report, rule='C05.R8')
    import json, os
    here = os.path.dirname(os.path.dirname(os.path.abspath(__file__)))
    with open(os.path.join(here, 'reviewed.json')) as fh:
        reviewed = json.load(fh).get('C01.R1', {})
    with open(os.path.join(here, 'nondsl.json')) as fh:
        nondsl = json.load(fh)
    from ..codecs import ACCEPTANCE_CODECS, EVALUATED_CODECS
    for c in model.concrete_parsables():
        if c.name in ACCEPTANCE_CODECS:
            # inputs the format has no text for (a DNS label of more than 63 octets): accepted means composable
            ev = ACCEPTANCE_CODECS[c.name](ctx)
            report.count('C05.R1', ev.get('runs', 0))
            if not ev['evaluated']:
                report.add('C05.R1', '%s@codec[evaluation]' % c.construct, 'the codec left the subset the evaluation understands: %s' % ev['why'])
            for what, text in sorted(ev.get('acceptance', {}).items()):
                report.add('C05.R1', '%s@accepted[%s]' % (c.construct, what), text)
        if classify(ctx, c) != 'binary' or c.name in reviewed or c.name in nondsl:
            continue
        cm = compare_class(c, ctx.canon)
        report.count('C05.R1')
        if cm.diffs and c.name in EVALUATED_CODECS:
            # layouts that differ in shape only: both functions evaluated against the wire format (sa/codecs.py, see C01.R1) -
            # what the parser accepted there is what the composer produced
            ev = EVALUATED_CODECS[c.name](ctx)
            if ev['evaluated']:
                for side, text in sorted(ev['problems'].items()):
                    report.add('C05.R1', '%s@codec[%s]' % (c.construct, side), text)
                continue
        for d in cm.diffs:
            a = d.a
            if a is None:
                continue
            wider = d.kind == 'width' and a.kind == 'u' and d.b is not None and isinstance(a.w, int) and isinstance(d.b.w, int) and a.w > d.b.w
            structural = a.kind in ('repeat', 'alt', 'tryalt') and d.kind in ('shape', 'missing')
            if wider or structural:
                report.add('C05.R1', '%s@%s' % (c.construct, diff_key(d)),
                           'the parser accepts %s here, the composer cannot produce it: an accepted input cannot be re-serialised (%s)' % (a.sig(), d.detail))
    # ---- R2
    for f in model.functions():
        for n in ast.walk(f.node):
            if not isinstance(n, ast.Call) or not isinstance(n.func, ast.Attribute):
                continue
            fmt = None
            recv = None
            if n.func.attr == 'strftime' and n.args:
                fmt, recv = n.args[0], n.func.value
            elif n.func.attr == 'compose_date_time' and len(n.args) >= 2:
                fmt, recv = n.args[1], n.args[0]
            if fmt is None:
                continue
            report.count('C05.R2')
            report.touch(f)
            if isinstance(fmt, ast.Constant) and isinstance(fmt.value, str):
                if not any(z in repr(fmt.value) or z in fmt.value for z in ZONE_LITERALS):
                    continue
                if normalised_to_utc(model, f, recv, n):
                    report.sample({'rule': 'C05.R2', 'site': f.construct, 'format': fmt.value, 'verdict': 'value normalised to UTC first'})
                    continue
                report.add('C05.R2', f.construct + '@zone-literal',
                           'the format %r prints a fixed zone designator but the value (%s) is not converted to UTC first: an accepted '
                           'date with another offset is re-serialised as a different instant' % (fmt.value, ast.unparse(recv)))
    # ---- R3
    c = model.cls('TlsHandshakeClientHello')
    p, q = c.methods.get('_parse'), c.methods.get('compose')
    if p is None or q is None:
        report.error('C05.R3: TlsHandshakeClientHello._parse/compose vanished')
        return
    report.touch(p)
    report.touch(q)
    if scsv_tabulation(ctx, report, c, p, q):
        report.floor('C05.R1', 150, 'binary classes')
        report.floor('C05.R2', 2, 'date formatting sites')
        return
    # fallback: the fold / unfold read off the shape of the loop (the functions left the evaluable subset)
    folds = {}
    for n in ast.walk(p.node):
        if isinstance(n, ast.For):
            chain = [s for s in n.body if isinstance(s, ast.If)]
            node = chain[0] if chain else None
            while node is not None:
                t = ast.unparse(node.test)
                marker = None
                for m in ('FALLBACK_SCSV', 'EMPTY_RENEGOTIATION_INFO_SCSV'):
                    if m in t:
                        marker = m
                if marker:
                    sets = [ast.unparse(s.targets[0]) for s in node.body if isinstance(s, ast.Assign) and isinstance(s.value, ast.Constant) and s.value.value is True]
                    appends = [s for s in ast.walk(ast.Module(body=node.body, type_ignores=[])) if isinstance(s, ast.Call) and isinstance(s.func, ast.Attribute) and s.func.attr == 'append']
                    folds[marker] = (sets, bool(appends))
                if len(node.orelse) == 1 and isinstance(node.orelse[0], ast.If):
                    node = node.orelse[0]
                else:
                    final = node.orelse
                    keeps = any(isinstance(s, ast.Call) and isinstance(s.func, ast.Attribute) and s.func.attr == 'append'
                                for s in ast.walk(ast.Module(body=final, type_ignores=[])))
                    folds['<else>'] = ([], keeps)
                    node = None
    for marker in ('FALLBACK_SCSV', 'EMPTY_RENEGOTIATION_INFO_SCSV'):
        report.count('C05.R3', 2)
        flag = marker.lower()
        if marker not in folds:
            report.add('C05.R3', p.construct + '@fold[%s]' % marker, 'the marker suite %s is no longer folded into a flag by the parser' % marker)
            continue
        sets, kept = folds[marker]
        if flag not in sets:
            report.add('C05.R3', p.construct + '@fold[%s]' % marker, 'the branch that recognises %s does not set %s' % (marker, flag))
        if kept:
            report.add('C05.R3', p.construct + '@fold[%s]' % marker, '%s is folded into the flag and also kept in the list: every parse/compose cycle duplicates it' % marker)
        emits = False
        for n in ast.walk(q.node):
            if isinstance(n, ast.If) and ast.unparse(n.test) == 'self.' + flag and not n.orelse:
                if any(marker in ast.unparse(s) and 'append' in ast.unparse(s) for s in n.body):
                    emits = True
        if not emits:
            report.add('C05.R3', q.construct + '@unfold[%s]' % marker, 'compose does not emit %s exactly when self.%s is set' % (marker, flag))
    if not folds.get('<else>', ([], False))[1]:
        report.add('C05.R3', p.construct + '@fold[else]', 'ordinary cipher suites are not kept by the folding loop')
    report.floor('C05.R1', 150, 'binary classes')
    report.floor('C05.R2', 2, 'date formatting sites')


def scsv_tabulation(ctx, report, c, p, q, RULE='C05.R3'):
    """TlsHandshakeClientHello._parse and .compose evaluated (sa.miniexec) with model parsers / composers for every cipher
    suite sequence of length <= 3 over two ordinary suites and the two signalling values: the parser keeps the ordinary
    suites in order and turns each signalling value into its flag (and only that), the composer writes the ordinary suites
    in order plus a signalling value exactly for each set flag - so parse(compose(x)) gives x back and a second compose the
    same bytes.  Helper methods, tables and comprehensions instead of the loop make no difference.  False when either
    function leaves the evaluable subset (the syntactic reading is used then)."""
    import itertools
    from ..miniexec import Evaluator, Native, Obj, Raised, Unsupported, class_call_hook
    model = ctx.model
    FB, RN, A, B = 0x5600, 0x00ff, 0xc02f, 0x1301
    fields = [f.name for f in c.attrs_fields()] if hasattr(c, 'attrs_fields') else []

    def suite(code):
        return Obj(value=Obj(code=code), code=code)
    markers = {'FALLBACK_SCSV': suite(FB), 'EMPTY_RENEGOTIATION_INFO_SCSV': suite(RN)}

    def names(nm):
        parts = nm.split('.')
        if parts[0] == 'TlsCipherSuiteExtension' and len(parts) >= 2 and parts[1] in markers:
            v = markers[parts[1]]
            for a in parts[2:]:
                v = getattr(v, a)
            return v
        raise Unsupported('free name ' + nm)

    class AnyParser(Native):
        def __init__(self, values=None, truthy=True):
            self.values = dict(values or {})
            self.parsed_length = 7
            self.truthy = truthy

        def __getitem__(self, k):
            return self.values[k]

        def __bool__(self):
            return self.truthy

        def parse_parsable(self, name, cls_, *a):
            self.values.setdefault(name, ('parsed', name))
    box = {}

    def run_parse(seq):
        box.clear()

        def extra(n, ev):
            d = ast.unparse(n.func)
            if d.endswith('._parse_handshake_header'):
                return AnyParser({'payload': b'payload'})
            if d.endswith('._parse_hello_header'):
                return AnyParser({'protocol_version': 'V', 'random': 'R', 'session_id': 'S', 'cipher_suites': [suite(x) for x in seq],
                                  'compression_methods': 'C', 'extensions': 'E'})
            if d.endswith('._parse_extensions'):
                return ev.ev(n.args[1])
            if d in ('TlsHandshakeClientHello', 'cls') and 'self' not in ev.env:
                args = [ev.ev(a) for a in n.args]
                kw = {k.arg: ev.ev(k.value) for k in n.keywords if k.arg}
                for k in n.keywords:
                    if k.arg is None:
                        kw.update(ev.ev(k.value))
                got = dict(zip(fields, args))
                got.update(kw)
                # arguments the parser does not pass take the defaults of the class (a flag that defaults to True is set unless
                # the parser says otherwise)
                for fld in c.attrs_fields():
                    if fld.name not in got and isinstance(fld.default_node, ast.Constant):
                        got[fld.name] = fld.default_node.value
                box['obj'] = got
                return ('object',)
            if d == 'TlsExtensionsClient':
                return 'E0'
            return NotImplemented
        hook = class_call_hook(c, extra, model)
        class Cls(Native):
            # the class object of the hello: class level tables are read through the class chain
            _repo_class = c
        Evaluator({'parsable': b'x', 'cls': Cls()}, hook, hook.name_hook_for(c.module, names)).function(p.node)
        return box.get('obj')
    log = []

    class Composer(Native):
        composed_bytes = b''
        composed = b''
        composed_length = 0

        def compose_numeric_array_enum_coded(self, values):
            log.append([getattr(v, 'code', None) for v in list(values)])

        def compose_numeric(self, *a):
            pass

        def compose_parsable(self, *a):
            pass

        def compose_raw(self, *a):
            pass

        def compose_bytes(self, *a):
            pass

    class Suites(Native):
        def __init__(self, items):
            self.items = list(items)

        def __iter__(self):
            return iter(self.items)

        def __len__(self):
            return len(self.items)

        def get_param(self):
            return Obj(item_num_size=2, item_size=2)

    class Extensions(Native):
        """the extension list of the hello: iteration, length and the lookup by type (KeyError when there is none)"""
        def __init__(self, types):
            self.types = list(types)

        def __iter__(self):
            return iter([Obj(extension_type=t) for t in self.types])

        def __len__(self):
            return len(self.types)

        def get_item_by_type(self, extension_type):
            for t in self.types:
                if t == extension_type:
                    return Obj(extension_type=t)
            raise KeyError(extension_type)

    def run_compose(seq, fb, rn, extension_types=()):
        del log[:]

        def extra(n, ev):
            d = ast.unparse(n.func)
            if d == 'ComposerBinary':
                return Composer()
            if d.endswith('._compose_extensions') or d.endswith('._compose_header'):
                return b''
            return NotImplemented
        me = Obj(cipher_suites=Suites([suite(x) for x in seq]), fallback_scsv=fb, empty_renegotiation_info_scsv=rn,
                 protocol_version='V', random='R', session_id='S', compression_methods='C', extensions=Extensions(extension_types))
        hook = class_call_hook(c, extra, model)
        Evaluator({'self': me}, hook, hook.name_hook_for(c.module, names)).function(q.node)
        return [x for l in log for x in l]
    try:
        for n in range(0, 4):
            for seq in itertools.product((A, B, FB, RN), repeat=n):
                report.count(RULE)
                obj = run_parse(seq)
                want = [x for x in seq if x not in (FB, RN)]
                if obj is None:
                    report.add(RULE, p.construct + '@fold[object]', 'no client hello object is constructed for the suites %s' % [hex(x) for x in seq])
                    return True
                got = [getattr(x, 'code', None) for x in list(obj.get('cipher_suites', []))]
                for marker, flag, code in (('FALLBACK_SCSV', 'fallback_scsv', FB), ('EMPTY_RENEGOTIATION_INFO_SCSV', 'empty_renegotiation_info_scsv', RN)):
                    if bool(obj.get(flag)) != (code in seq):
                        report.add(RULE, p.construct + '@fold[%s]' % marker, 'suites %s: the parser sets %s=%s, expected %s' % ([hex(x) for x in seq], flag, obj.get(flag), code in seq))
                        return True
                    if code in got:
                        report.add(RULE, p.construct + '@fold[%s]' % marker, '%s is folded into the flag and also kept in the list: every parse/compose cycle duplicates it' % marker)
                        return True
                if got != want:
                    report.add(RULE, p.construct + '@fold[else]', 'suites %s: the parser keeps %s, expected the ordinary suites %s in order' % (
                        [hex(x) for x in seq], [hex(x) if isinstance(x, int) else x for x in got], [hex(x) for x in want]))
                    return True
        from ..miniexec import EnumVal
        et = model.try_cls('TlsExtensionType')
        reneg = [EnumVal.of(et, 'RENEGOTIATION_INFO')] if et is not None and 'RENEGOTIATION_INFO' in (et.enum_members or {}) else []
        # what is written for a flag does not depend on the extensions the hello carries (the parser sets the flag for the value in
        # the suite list and for nothing else): a hello with and without the renegotiation_info extension
        for seq, ext in [(s, ()) for s in ((), (A,), (A, B), (B, A, A))] + [(s, tuple(reneg)) for s in ((A,), (A, B)) if reneg]:
            for fb, rn in itertools.product((False, True), repeat=2):
                report.count(RULE)
                out = run_compose(seq, fb, rn, ext)
                for marker, flag, code, on in (('FALLBACK_SCSV', 'fallback_scsv', FB, fb), ('EMPTY_RENEGOTIATION_INFO_SCSV', 'empty_renegotiation_info_scsv', RN, rn)):
                    if (out.count(code) == 1) != on or out.count(code) > 1:
                        report.add(RULE, q.construct + '@unfold[%s]' % marker, 'compose does not emit %s exactly when self.%s is set (suites %s, flag %s: written %s)' % (
                            marker, flag, [hex(x) for x in seq], on, [hex(x) if isinstance(x, int) else x for x in out]))
                        return True
                if [x for x in out if x not in (FB, RN)] != list(seq):
                    report.add(RULE, q.construct + '@unfold[suites]', 'compose writes %s for the suites %s' % ([hex(x) if isinstance(x, int) else x for x in out], [hex(x) for x in seq]))
                    return True
    except (Unsupported, Raised) as e:
        report.sample({'rule': RULE, 'tabulation': 'not applicable (%s): the fold is read off the loop instead' % str(e)[:80]})
        return False
    report.sample({'rule': RULE, 'tabulated': '85 suite sequences through _parse, 24 objects through compose (with and without a renegotiation_info extension)'})
    return True


def callee_normalises(model, call):
    """compose_date_time itself converts its value parameter to UTC before formatting"""
    ct = model.cls('ComposerText')
    g = ct.methods.get('compose_date_time')
    if g is None or len(g.params) < 2:
        return False
    p = g.params[1]
    seen_norm = False
    for st in g.node.body:
        for n in ast.walk(st):
            if isinstance(n, ast.Assign) and ast.unparse(n.targets[0]) == p and 'astimezone(' in ast.unparse(n.value) and \
                    ('UTC' in ast.unparse(n.value) or 'utc' in ast.unparse(n.value)):
                seen_norm = True
            if isinstance(n, ast.Call) and isinstance(n.func, ast.Attribute) and n.func.attr == 'strftime':
                return seen_norm and ast.unparse(n.func.value) == p
    return False


def normalised_to_utc(model, f, recv, call):
    """the formatted value is, on every path of the function, the result of astimezone(<UTC>) (possibly guarded by
    `tzinfo is not None`) or the function is compose_date_time's own body delegating to a caller we check separately"""
    if isinstance(call.func, ast.Attribute) and call.func.attr == 'compose_date_time' and callee_normalises(model, call):
        return True
    src = ast.unparse(f.node)
    name = ast.unparse(recv)
    if 'astimezone(' not in src and 'utctimetuple' not in src:
        # formatting helper that receives the value as a parameter: its callers are checked at their own call sites
        return False
    for n in ast.walk(f.node):
        if isinstance(n, ast.Assign) and ast.unparse(n.targets[0]) == name and 'astimezone(' in ast.unparse(n.value) and \
                ('UTC' in ast.unparse(n.value) or 'utc' in ast.unparse(n.value)):
            return True
    return 'astimezone(' in ast.unparse(recv) and ('UTC' in ast.unparse(recv) or 'utc' in ast.unparse(recv))


# ---- R4: an absent optional component stays absent ---------------------------------------------------------------

def none_preserving_external(model, name):
    """is the converter factory ``name`` of the dependency one whose converter maps None to None? decided on the source of
    cryptodatahub/common/types.py: the factory returns an instance of a class whose __call__ starts with
    ``if value is None: return None``"""
    import os
    from ..model import find_dependency
    path = os.path.join(find_dependency() or '', 'common', 'types.py')
    try:
        with open(path) as fh:
            tree = ast.parse(fh.read())
    except (OSError, SyntaxError):
        return None
    funcs = {n.name: n for n in tree.body if isinstance(n, ast.FunctionDef)}
    classes = {n.name: n for n in tree.body if isinstance(n, ast.ClassDef)}
    f = funcs.get(name)
    if f is None:
        return None
    for r in [n for n in ast.walk(f) if isinstance(n, ast.Return) and isinstance(n.value, ast.Call) and isinstance(n.value.func, ast.Name)]:
        k = classes.get(r.value.func.id)
        if k is None:
            continue
        call = [m for m in k.body if isinstance(m, ast.FunctionDef) and m.name == '__call__']
        if not call:
            return None
        first = [s for s in call[0].body if not (isinstance(s, ast.Expr) and isinstance(s.value, ast.Constant))][0]
        return isinstance(first, ast.If) and ast.unparse(first.test) == 'value is None' and len(first.body) == 1 and \
            isinstance(first.body[0], ast.Return) and ast.unparse(first.body[0]) == 'return None'
    return None


def converter_of_none(ctx, fld):
    """'none' | 'object' | None (undecided): what the field's converter makes of None"""
    from ..miniexec import Evaluator, Obj, Raised, Unsupported, class_call_hook
    node = fld.converter_node
    model = ctx.model
    if node is None:
        return 'none'
    if isinstance(node, ast.Call) and isinstance(node.func, ast.Name):
        r = none_preserving_external(model, node.func.id)
        if r is True:
            return 'none'
        if r is False:
            return 'object'
        return None
    if isinstance(node, ast.Attribute) and isinstance(node.value, ast.Name):
        k = model.resolve_name(fld.owner.module, node.value.id)
        m = k.resolve(node.attr) if isinstance(k, ClassInfo) else None
        if m is None or m.module.external:
            return None

        def extra(n, ev):
            d = ast.unparse(n.func)
            if d == 'isinstance':
                v = ev.ev(n.args[0])
                return False if v is None else NotImplemented
            if d == 'cls' or (isinstance(n.func, ast.Name) and n.func.id[:1].isupper()):
                return Obj(constructed=True)
            return NotImplemented
        params = [a.arg for a in m.node.args.args if a.arg not in ('self', 'cls')]
        try:
            got = Evaluator({params[0]: None}, class_call_hook(k, extra, model), None).function(m.node)
        except Raised:
            return 'object'
        except (Unsupported, IndexError):
            return None
        return 'none' if got is None else 'object'
    if isinstance(node, ast.Name):
        k = model.resolve_name(fld.owner.module, node.id)
        if isinstance(k, ClassInfo):
            return 'object'
    return None


def component_admits_none(ctx, fld):
    """can the class the converter wraps None into be constructed with value None?  True when its ``value`` field carries
    an optional() validator (or none at all) and every __attrs_post_init__ on the way is guarded by ``value is not None``;
    False when a plain instance_of / in_ validator or an unguarded post-init conversion rejects None"""
    node = fld.converter_node
    model = ctx.model
    if not (isinstance(node, ast.Attribute) and isinstance(node.value, ast.Name)):
        return None
    k = model.resolve_name(fld.owner.module, node.value.id)
    if not isinstance(k, ClassInfo):
        return None
    vf = [f for f in k.attrs_fields() if f.name == 'value']
    if not vf:
        return None
    v = vf[-1].validator_node
    if v is not None and 'optional' not in ast.unparse(v):
        return False
    if vf[-1].validator_methods:
        return None
    for b in k.mro:
        if isinstance(b, ClassInfo) and '__attrs_post_init__' in b.methods:
            pi = b.resolve('__attrs_post_init__')
            guarded = any(isinstance(n, ast.If) and 'self.value is not None' in ast.unparse(n.test) for n in pi.node.body)
            return True if guarded else None
    return True


def absent_stays_absent(ctx, report):
    model = ctx.model
    report.rule('C05.R4', 'an optional field (default None, optional validator) keeps None through its converter')
    for c in model.repo_classes():
        if not c.has_attrs():
            continue
        for fld in c.attrs_fields():
            if fld.owner is not c:
                continue
            d, v = fld.default_node, fld.validator_node
            if not (isinstance(d, ast.Constant) and d.value is None) or v is None or 'optional' not in ast.unparse(v):
                continue
            report.count('C05.R4')
            r = converter_of_none(ctx, fld)
            if r == 'object' and component_admits_none(ctx, fld) is False:
                # the wrapped None is rejected by the component itself: the field is required in effect (construction and
                # parsing fail with InvalidValue), nothing absent is ever composed
                report.sample({'rule': 'C05.R4', 'class': c.name, 'field': fld.name, 'verdict': 'declared optional, None rejected by the component class'}, 12)
                continue
            if r == 'object' and component_admits_none(ctx, fld) is None:
                report.undecided.append('%s.%s: converter wraps None, whether the component class accepts None is decided by a validator method' % (c.name, fld.name))
                continue
            if r == 'object':
                report.add('C05.R4', '%s@optional[%s]' % (c.construct, fld.name),
                           'the converter %s turns the default None into an object: the absent component is composed as a present one '
                           '(its value rendered as the text None) and parses back as a different value' % ast.unparse(fld.converter_node))
            elif r is None:
                report.undecided.append('%s.%s: converter %s not decidable on None' % (c.name, fld.name, ast.unparse(fld.converter_node)))


# ---- R6: a URL is re-serialised from all of its parts ----------------------------------------------------------------

URL_PARTS_AFTER_PATH = ('query', 'fragment')


def url_projection(ctx, report):
    """FieldValueComponentUrl keeps a urllib3 Url; whenever its text is rebuilt from individual parts (the mailto branch)
    instead of str(url), every part that follows the path on the wire (query, fragment) must be written too, otherwise the
    composed value parses to a different URL"""
    c = ctx.model.try_cls('FieldValueComponentUrl')
    f = c.methods.get('_get_value_as_simple_type') if c is not None else None
    report.rule('C05.R6', 'URL components are re-serialised from all of their parts')
    report.count('C05.R6')
    if f is None:
        report.error('C05.R6: FieldValueComponentUrl._get_value_as_simple_type vanished')
        return
    report.touch(f)
    # every part of a urllib3 Url except the scheme may be None: slicing or concatenating it needs a guard
    parents = {}
    for n in ast.walk(f.node):
        for ch in ast.iter_child_nodes(n):
            parents[id(ch)] = n
    for n in ast.walk(f.node):
        if isinstance(n, ast.Attribute) and ast.unparse(n.value) == 'self.value' and n.attr in ('path', 'query', 'fragment', 'host', 'auth', 'port'):
            p = parents.get(id(n))
            used_raw = isinstance(p, ast.Subscript) and p.value is n or (isinstance(p, ast.BinOp) and isinstance(p.op, ast.Add))
            if not used_raw:
                continue
            report.count('C05.R6')
            guarded = False
            q = n
            while id(q) in parents:
                q = parents[id(q)]
                if isinstance(q, ast.If) and ('self.value.%s' % n.attr) in ast.unparse(q.test):
                    guarded = True
            if not guarded:
                report.add('C05.R6', '%s@optional-part[%s]' % (f.construct, n.attr),
                           'self.value.%s may be None (urllib3 leaves absent URL parts unset) but is sliced / concatenated without a test: composing and '
                           'rendering such a URL raises TypeError' % n.attr)
    for br in [n for n in ast.walk(f.node) if isinstance(n, ast.If)]:
        for name, body in (('then', br.body), ('else', br.orelse)):
            attrs = {n.attr for st in body for n in ast.walk(st) if isinstance(n, ast.Attribute) and ast.unparse(n.value) == 'self.value'}
            whole = any(isinstance(n, ast.Call) and ast.unparse(n.func) == 'str' and n.args and ast.unparse(n.args[0]) == 'self.value'
                        for st in body for n in ast.walk(st))
            if whole or 'path' not in attrs:
                continue
            report.count('C05.R6')
            missing = [p for p in URL_PARTS_AFTER_PATH if p not in attrs]
            if missing:
                report.add('C05.R6', '%s@url-parts[%s]' % (f.construct, ast.unparse(br.test)[:40]),
                           'the URL is rebuilt from %s only: its %s is dropped, the composed value parses to a different URL' % (
                               sorted(attrs), ' and '.join(missing)))


# ---- R11: dates written as text -------------------------------------------------------------------------------------------

def text_dates(ctx, report, RULE='C05.R11'):
    """ParserText.parse_date_time and every function that prints a date with a literal zone designator, evaluated from their
    own statements (sa.miniexec) over a table of date texts and a model of what dateutil.parser.parse returns for them
    (naive without a zone or with a zone name it does not know, aware otherwise, microseconds kept, OverflowError from
    astimezone at the ends of the calendar): every accepted text must compose, the composed text must be read back as an
    equal value (Python's datetime equality: a naive value never equals an aware one) and compose to the same text again."""
    import datetime as _dt
    import re
    from ..miniexec import Evaluator, Native, Obj, Raised, Unsupported, class_call_hook, exception_values
    model = ctx.model
    report.rule(RULE, 'dates in text form: every accepted spelling is written back as a text that reads as the same value (zone-less, '
                      'offset, fractional and end-of-calendar dates tabulated over a model of dateutil)')
    pt = model.try_cls('ParserText')
    pf = pt.methods.get('parse_date_time') if pt is not None else None
    if pf is None:
        report.error(RULE + ': ParserText.parse_date_time vanished')
        return
    report.touch(pf)
    UTC = Obj(name='UTC')
    EPOCH = _dt.datetime(1970, 1, 1)
    LO = int((_dt.datetime(1, 1, 1) - EPOCH).total_seconds())
    HI = int((_dt.datetime(9999, 12, 31, 23, 59, 59) - EPOCH).total_seconds())
    LOCAL = 5 * 3600       # the zone of the machine, for code that asks for it: any non-zero value shows the dependence

    class Moment(Native):
        """a datetime: wall clock seconds since 1970-01-01 00:00 of its own zone, microseconds, offset to UTC (None: naive)"""

        def __init__(self, wall, micro=0, offset=None):
            if not LO <= wall <= HI:
                raise OverflowError('date value out of range')
            self.wall, self.microsecond, self.offset = wall, micro, offset
            self.tzinfo = None if offset is None else UTC if offset == 0 else Obj(name='UTC%+d' % offset)

        def astimezone(self, tz=None):
            if tz is not UTC:
                raise Unsupported('astimezone to something else than UTC')
            off = LOCAL if self.offset is None else self.offset
            return Moment(self.wall - off, self.microsecond, 0)

        def replace(self, **kw):
            wall, micro, off = self.wall, self.microsecond, self.offset
            for k, v in kw.items():
                if k == 'tzinfo':
                    if v is None:
                        off = None
                    elif v is UTC:
                        off = 0
                    else:
                        raise Unsupported('replace(tzinfo=%r)' % (v,))
                elif k == 'microsecond':
                    micro = v
                else:
                    raise Unsupported('replace(%s=...)' % k)
            return Moment(wall, micro, off)

        def utcoffset(self):
            return None if self.offset is None else Obj(seconds=self.offset)

        def strftime(self, fmt):
            return (EPOCH + _dt.timedelta(seconds=self.wall, microseconds=self.microsecond)).strftime(fmt)

        def same(self, other):
            if (self.offset is None) != (other.offset is None):
                return False
            a = self.wall - (self.offset or 0), self.microsecond
            return a == (other.wall - (other.offset or 0), other.microsecond)

        def __repr__(self):
            return '%s%s' % ((EPOCH + _dt.timedelta(seconds=self.wall, microseconds=self.microsecond)).isoformat(),
                             ' naive' if self.offset is None else ' UTC%+d' % self.offset if self.offset else ' UTC')
    GRAMMAR = re.compile(r'(?:[A-Za-z]{3}, )?(\d{1,2}) ([A-Za-z]{3}) (\d{4}) (\d\d):(\d\d):(\d\d)(\.\d+)?(?: (GMT|UTC|Z|[+-]\d{4}|[A-Za-z]{2,5}))?$')
    MONTHS = ['Jan', 'Feb', 'Mar', 'Apr', 'May', 'Jun', 'Jul', 'Aug', 'Sep', 'Oct', 'Nov', 'Dec']

    def library_parse(text):
        """what dateutil.parser.parse gives for the spellings of the table (ParserError is a ValueError)"""
        m = GRAMMAR.match(text)
        if m is None or m.group(2) not in MONTHS:
            raise ValueError('Unknown string format: %s' % text)
        wall = int((_dt.datetime(int(m.group(3)), MONTHS.index(m.group(2)) + 1, int(m.group(1)), int(m.group(4)), int(m.group(5)), int(m.group(6))) - EPOCH).total_seconds())
        micro = int(round(float(m.group(7)) * 1000000)) if m.group(7) else 0
        z = m.group(8)
        if z in ('GMT', 'UTC', 'Z'):
            off = 0
        elif z and z[0] in '+-':
            off = (1 if z[0] == '+' else -1) * (int(z[1:3]) * 3600 + int(z[3:5]) * 60)
        else:
            off = None          # no zone, or a zone name the library does not know (it warns and returns a naive value)
        return Moment(wall, micro, off)
    exc = exception_values('InvalidValue')

    def hook(n, ev):
        d = ast.unparse(n.func)
        if d == 'dateutil.parser.parse':
            return library_parse(ev.ev(n.args[0]))
        return exc(n, ev)

    def names(name):
        if name in ('dateutil.tz.UTC', 'datetime.timezone.utc'):
            return UTC
        if name == 'type':
            return type
        raise Unsupported('free name ' + name)

    class State(Native):
        def __init__(self, data):
            self._parsable, self._parsed_length, self._parsed_values, self._encoding = data, 0, {}, 'ascii'
    phook = class_call_hook(pt, hook, model)
    pnames = phook.name_hook_for(pt.module, names)

    def parse(text):
        me = State(text.encode('ascii'))
        Evaluator({'self': me, 'name': 'value'}, phook, pnames).function(pf.node)
        return me._parsed_values.get('value')
    # the functions that print a date with a literal zone designator: (function, how to call it on a value)
    printers = []

    def text_of(f, node):
        """the format string: a literal, or a module / class level name bound to one"""
        if isinstance(node, ast.Constant) and isinstance(node.value, str):
            return node.value
        try:
            h = class_call_hook(f.cls, None, model)
            v = Evaluator({}, h, h.name_hook_for(f.module, None)).ev(node)
        except Exception:      # pylint: disable=broad-except
            return None
        return v if isinstance(v, str) else None
    for f in model.functions():
        if f.cls is None:
            continue
        for n in ast.walk(f.node):
            if isinstance(n, ast.Call) and isinstance(n.func, ast.Attribute) and n.func.attr == 'compose_date_time' and len(n.args) >= 2 and f.cls.name != 'ComposerText':
                fmt = text_of(f, n.args[1])
                if fmt is not None:
                    printers.append((f, 'primitive', fmt))
            elif isinstance(n, ast.Call) and isinstance(n.func, ast.Attribute) and n.func.attr == 'strftime' and n.args \
                    and f.name != 'compose_date_time' and len(f.node.args.args) == 1:
                fmt = text_of(f, n.args[0])
                if fmt is not None and any(z in fmt for z in ZONE_LITERALS):
                    printers.append((f, 'method', fmt))
    ct = model.try_cls('ComposerText')
    cf = ct.methods.get('compose_date_time') if ct is not None else None

    class Out(Native):
        def __init__(self):
            self.text = []

        def compose_string(self, value):
            self.text.append(value)

    def printed(printer, value):
        f, kind, fmt = printer
        if kind == 'primitive':
            if cf is None:
                raise Unsupported('ComposerText.compose_date_time vanished')
            chook = class_call_hook(ct, hook, model)
            me = Out()
            Evaluator({'self': me, 'value': value, 'fmt': fmt}, chook, chook.name_hook_for(ct.module, names)).function(cf.node)
            return ''.join(me.text)
        fh = class_call_hook(f.cls, hook, model)
        return Evaluator({'self': Obj(value=value)}, fh, fh.name_hook_for(f.module, names)).function(f.node)
    TEXTS = [
        ('plain', 'Wed, 21 Oct 2015 07:28:00 GMT'),
        ('offset', 'Wed, 21 Oct 2015 07:28:00 +0200'),
        ('offset', 'Wed, 21 Oct 2015 07:28:00 -0930'),
        ('zone-less', 'Wed, 21 Oct 2015 07:28:00'),
        ('zone-less', '21 Oct 2015 07:28:00 CEST'),
        ('fraction', 'Wed, 21 Oct 2015 07:28:00.5 GMT'),
        ('end-of-calendar', 'Fri, 31 Dec 9999 23:59:59 -0100'),
        ('plain', 'Fri, 31 Dec 9999 23:59:59 GMT'),
        ('plain', 'Thu, 01 Jan 1970 00:00:00 GMT'),
        ('offset', 'Thu, 01 Jan 1970 00:30:00 +0100'),
    ]
    if not printers:
        report.error(RULE + ': no function prints a date with a literal zone designator any more')
        return
    problems = {}
    try:
        for printer in printers:
            report.touch(printer[0])
            for kind, text in TEXTS:
                report.count(RULE)
                try:
                    o1 = parse(text)
                except Raised as e:
                    if kind == 'plain':
                        problems.setdefault((printer[0].construct, kind), '%r is refused (%s)' % (text, e.what[:60]))
                    continue
                if not isinstance(o1, Moment):
                    raise Unsupported('parse_date_time stores %r' % (o1,))
                try:
                    c1 = printed(printer, o1)
                except Raised as e:
                    problems.setdefault((printer[0].construct, kind), '%r is accepted (as %r) and cannot be written: %s' % (text, o1, e.what[:80]))
                    continue
                if not isinstance(c1, str):
                    raise Unsupported('%s gives %r' % (printer[0].qualname, c1))
                try:
                    o2 = parse(c1)
                    c2 = printed(printer, o2)
                except Raised as e:
                    problems.setdefault((printer[0].construct, kind), '%r is written as %r, which is not accepted again (%s)' % (text, c1, e.what[:60]))
                    continue
                if not o1.same(o2):
                    problems.setdefault((printer[0].construct, kind), '%r is read as %r and written as %r, which reads as %r: not the same value' % (text, o1, c1, o2))
                elif c2 != c1:
                    problems.setdefault((printer[0].construct, kind), '%r is written as %r and then as %r' % (text, c1, c2))
    except Unsupported as e:
        report.add(RULE, pf.construct + '@tabulation', 'the date functions left the subset the tabulation understands: %s' % e)
        return
    for (cons, kind), v in sorted(problems.items()):
        report.add(RULE, '%s@date[%s]' % (cons, kind), v)
    report.floor(RULE, 20, 'date texts x printing functions')


# ---- R12: members of JSON documents that are stored as another type -----------------------------------------------------

def json_member_round_trip(ctx, report, RULE='C05.R12'):
    """a member of a JSON header value is turned into an object by ``<component>.convert`` and written back by
    ``_get_value_as_simple_type``; for the component kinds that change the type on the way (seconds -> timedelta), both are
    evaluated from their own statements on numbers a JSON document can carry: what is written must read as the value it was
    written from"""
    import datetime as _dt
    from ..miniexec import Evaluator, Native, Raised, Unsupported, class_call_hook
    model = ctx.model
    report.rule(RULE, 'JSON members stored as another type (seconds as timedelta): the number written back reads as the stored value')
    kinds = []
    for c in model.all_classes:
        if not isinstance(c.name, str) or not c.name.startswith('FieldValueComponent'):
            continue
        conv, simple = c.methods.get('convert'), c.resolve('_get_value_as_simple_type')
        if conv is None or simple is None:
            continue
        kinds.append((c, conv, simple))
    if not kinds:
        report.error(RULE + ': no component class defines its own convert() any more')
        return

    class Made(Native):
        def __init__(self, value):
            self.value = value
    MARK = object()
    for c, conv, simple in kinds:
        report.touch(conv)
        report.touch(simple)

        def hook(n, ev):
            d = ast.unparse(n.func)
            if d == 'cls':
                v = ev.ev(n.args[0])
                return Made(v)
            if d == 'isinstance' and len(n.args) == 2:
                t = ev.ev(n.args[1])
                if t is MARK:
                    return isinstance(ev.ev(n.args[0]), Made)
                return NotImplemented
            if d == 'datetime.timedelta':
                return _dt.timedelta(*[ev.ev(a) for a in n.args], **{k.arg: ev.ev(k.value) for k in n.keywords})
            return NotImplemented

        def names(name):
            if name == 'cls':
                return MARK
            if name == 'datetime.timedelta':
                return _dt.timedelta
            raise Unsupported('free name ' + name)
        h = class_call_hook(c, hook, model)
        nh = h.name_hook_for(c.module, names)
        problems = None
        try:
            for v in (0, 1, 59, 86400, 31536000, 1.5, 0.25, 2.999, 1e3, True):
                report.count(RULE)
                try:
                    o1 = Evaluator({'cls': MARK, 'value': v}, h, nh).function(conv.node)
                    s1 = Evaluator({'self': o1}, h, nh).function(simple.node)
                    o2 = Evaluator({'cls': MARK, 'value': s1}, h, nh).function(conv.node)
                    s2 = Evaluator({'self': o2}, h, nh).function(simple.node)
                except Raised:
                    continue            # refused: nothing is stored
                if not (isinstance(o1, Made) and isinstance(o2, Made)):
                    raise Unsupported('convert gives %r' % (o1,))
                if o1.value != o2.value or s1 != s2:
                    problems = 'the JSON number %r is stored as %r and written as %r, which is stored as %r' % (v, o1.value, s1, o2.value)
                    break
        except Unsupported as e:
            report.add(RULE, conv.construct + '@tabulation', 'convert / _get_value_as_simple_type left the subset the tabulation understands: %s' % e)
            continue
        if problems:
            report.add(RULE, conv.construct + '@number', problems)
        else:
            report.sample({'rule': RULE, 'class': c.name, 'verdict': 'written number reads as the stored value for 10 sample numbers'})
    report.floor(RULE, 10, 'numbers x component kinds')
