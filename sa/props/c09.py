"""C09 -- opportunistic-TLS application messages match their protocol specifications."""
from __future__ import annotations

import ast
import json
import os

from .. import speccheck
from ..core import representatives
from ..model import ClassInfo, EnumMember
from ..spec import load_spec
from ..trace import Raise, Return, walk
from ..values import ClassV, ObjV, Sym, show

META = {
    'explanation': (
        'R1/R2: parser and composer layouts (incl. byte order of every multi-byte field, split capability flags with mirrored '
        'shifts, null terminated strings, 3 byte MySQL length, TPKT/X.224 length offsets, OpenVPN ack section) and which '
        'attribute sits at which position vs sa/specs/opp.json; numeric registries and constants (PostgreSQL request code, '
        'StartTLS OID). R3 return-class fidelity: a _parse defined in a class with several concrete subclasses constructs '
        'cls(...), not a fixed sibling. R4 tag discrimination (must-pass-through): every concrete message class that shares '
        'a wire family compares the tag it read with its own tag and raises InvalidType/InvalidValue before returning. '
        'R6: the asn1crypto schema tables of the LDAP messages (_fields/_alternatives, implicit tags, optional/default) '
        'equal the RFC 4511 definitions.'
        ' R7: parse_string_null_terminated evaluated on empty / offset / unterminated inputs; registry bindings of flag fields (enums.json).'),
    'assumptions': ['asn1crypto encodes/decodes BER according to the declared schema', 'sa/specs/opp.json transcribed by hand'],
    'trusted_base': ['sa/specs/opp.json', 'sa.interp/layout/canon/compare/spec'],
    'exhaustive': True,
}

META['explanation'] += ' ' + 'R5: protocol constants, and the LDAP StartTLS request parser compares the request name with the OID its composer writes (class constants resolved). R8: explicit rejections against the reviewed table.'

META['explanation'] += ' ' + 'R11: flag keyed optional parts (shared with C01.R12). R12: flag / timestamp tabulation incl. repeated members.'

META['explanation'] += ' ' + 'R13 / R14: no function changes a module level container / class level state on the way from bytes to message. R15: reported lengths (shared with C03.R3). R16: the LDAP result code map evaluated against the enumeration. R17: lower bounds on length fields admit the value composed for empty data (shared with C01.R22).'
META['explanation'] += ' ' + 'R18: OpenVPN parse_header evaluated for key ids 0..7 of every opcode and for the sibling opcodes. R19: collections handed to compose_numeric_flags followed back to the attribute (shared with C11.R15).'
MODULES = {'cryptoparser.tls.mysql', 'cryptoparser.tls.rdp', 'cryptoparser.tls.openvpn', 'cryptoparser.tls.postgresql', 'cryptoparser.tls.ldap'}
HERE = os.path.dirname(os.path.dirname(os.path.abspath(__file__)))


def ldap_result_code_map(ctx, report, RULE='C09.R16'):
    """The ENUMERATED of an LDAP result is decoded through ``LDAPResultCodeEnum._map`` (number on the wire -> member).  The class
    level expression that builds the map is evaluated (sa.miniexec, enum members standing for themselves): its keys have to be
    exactly the numbers of the members of LDAPResultCode and every key has to lead to the member of that number - a map keyed by
    position (``dict(enumerate(...))``) decodes 10 as the eleventh member."""
    from ..miniexec import Evaluator, EnumVal, Raised, Unsupported, class_call_hook
    model = ctx.model
    report.rule(RULE, 'LDAP result codes: the decoding map takes every wire number to the member with that number, and no other number to any member')
    c = model.try_cls('LDAPResultCodeEnum')
    enum = model.try_cls('LDAPResultCode')
    if c is None or enum is None or '_map' not in c.class_vars or not getattr(enum, 'enum_members', None):
        report.error('%s: LDAPResultCodeEnum._map / LDAPResultCode not found' % RULE)
        return
    hook = class_call_hook(c, None, model)
    ev = Evaluator({}, hook, hook.name_hook_for(c.module, None))
    ev.class_scope, ev.class_scope_node = c, c.class_vars['_map']
    try:
        table = ev.ev(c.class_vars['_map'])
    except (Unsupported, Raised, AttributeError, TypeError, KeyError, ValueError) as e:
        report.undecided.append('%s: _map not evaluable: %s' % (RULE, e))
        return
    want = {}
    for name, value in enum.enum_members.items():
        number = value.get('value') if isinstance(value, dict) else (value.value if isinstance(value, ast.Constant) else value)
        if not isinstance(number, int):
            report.undecided.append('%s: value of LDAPResultCode.%s is not a literal' % (RULE, name))
            return
        want[number] = name
    report.count(RULE, len(want))
    got = {}
    for k, v in (table.items() if isinstance(table, dict) else []):
        got[k] = v.name if isinstance(v, EnumVal) else getattr(v, 'name', v)
    if got != want:
        wrong = sorted((k for k in set(got) | set(want) if got.get(k) != want.get(k)), key=repr)[:6]
        report.add(RULE, '%s@map' % c.construct, 'the decoding map disagrees with the numbers of LDAPResultCode at %s (e.g. %r -> %r, the member with that number '
                   'is %r): a result code is decoded as another one or refused' % (wrong, wrong[0] if wrong else None, got.get(wrong[0]) if wrong else None,
                                                                                   want.get(wrong[0]) if wrong else None))
    report.floor(RULE, 30, 'LDAP result codes')



def openvpn_key_id_accepted(ctx, report, RULE='C09.R18'):
    """The first octet of an OpenVPN packet is ``opcode << 3 | key_id``: the parser has to take the class for every key id 0..7
    (a renegotiated session counts the key id up) and to decline, with InvalidType, the opcodes of the sibling classes.
    ``parse_header`` of every concrete packet class is evaluated (sa.miniexec) with a model parser on a minimal header - first
    octet, eight octets of session id, an empty acknowledgement array - for the eight key ids of its own opcode and for the
    opcodes of the other classes."""
    from ..miniexec import Evaluator, Native, NativeError, Raised, Unsupported, class_call_hook
    report.rule(RULE, 'OpenVPN first octet: every key id 0..7 under the opcode of the class is accepted, the opcodes of the sibling classes are declined')
    base = ctx.model.try_cls('OpenVpnPacketBase')
    if base is None:
        report.error('%s: OpenVpnPacketBase vanished' % RULE)
        return
    codes = {}
    for name, v in (getattr(ctx.model.try_cls('OpenVpnOpCode'), 'enum_members', None) or {}).items():
        if isinstance(v, ast.Constant):
            v = v.value
        if isinstance(v, int):
            codes[name] = v
    if len(codes) < 2:
        report.undecided.append('%s: the opcode enumeration is not readable' % RULE)
        return

    class Short(NativeError):
        pass
    Short.__name__ = 'NotEnoughData'

    class Parser(Native):
        def __init__(self, data):
            self.data, self.pos, self.values = bytes(data), 0, {}

        @property
        def unparsed_length(self):
            return len(self.data) - self.pos

        @property
        def parsed_length(self):
            return self.pos

        def parse_numeric(self, name, size, converter=int):
            if self.unparsed_length < size:
                raise Short(size - self.unparsed_length)
            self.values[name] = int.from_bytes(self.data[self.pos:self.pos + size], 'big')
            self.pos += size

        def parse_numeric_array(self, name, item_num, item_size, converter=int):
            out = []
            for _ in range(item_num):
                self.parse_numeric('#', item_size)
                out.append(self.values.pop('#'))
            self.values[name] = out

        def __getitem__(self, name):
            return self.values[name]

    current = {}

    def extra(node, ev):
        if ast.unparse(node.func) in ('ParserBinary',):
            return Parser(ev.ev(node.args[0]))
        if isinstance(node.func, ast.Attribute) and node.func.attr == 'get_op_code' and not node.args:
            return current['code']      # the member of the IntEnum as the integer it is
        return NotImplemented
    classes = []
    for c in ctx.model.all_subclasses(base):
        goc, ph = c.resolve('get_op_code'), c.resolve('parse_header')
        if goc is None or ph is None or goc.cls is base:
            continue
        names = [x.attr for x in ast.walk(goc.node) if isinstance(x, ast.Attribute) and isinstance(x.value, ast.Name) and x.value.id == 'OpenVpnOpCode']
        if len(names) == 1 and names[0] in codes:
            classes.append((c, ph, codes[names[0]]))
    if len(classes) < 2:
        report.undecided.append('%s: the opcodes of the packet classes are not readable' % RULE)
        return
    try:
        for c, ph, code in classes:
            report.touch(ph)
            hook = class_call_hook(c, extra, ctx.model)
            current['code'] = code

            class Cls(Native):
                _repo_class = c

            def run(first):
                data = bytes([first]) + bytes(8) + b'\x00' + bytes(8)
                try:
                    Evaluator({'cls': Cls(), 'parsable': data}, hook, hook.name_hook_for(ph.module, None)).function(ph.node)
                except (Short, Raised) as e:
                    return str(e) or type(e).__name__
                return None
            for key_id in range(8):
                report.count(RULE)
                refused = run(code << 3 | key_id)
                if refused is not None:
                    report.add(RULE, '%s@key-id[%s]' % (ph.construct, c.name), '%s.parse_header refuses the first octet 0x%02x (opcode %d, key id %d): %s' % (
                        c.name, code << 3 | key_id, code, key_id, refused[:60]))
                    break
            for _, _, other in classes:
                if other != code:
                    report.count(RULE)
                    refused = run(other << 3)
                    if refused is None or 'InvalidType' not in refused:
                        report.add(RULE, '%s@foreign-opcode[%s]' % (ph.construct, c.name), '%s.parse_header does not decline opcode %d with InvalidType (%s)' % (
                            c.name, other, refused))
                        break
    except (Unsupported, AttributeError, TypeError, KeyError) as e:
        report.undecided.append('%s: parse_header not evaluable: %s' % (RULE, str(e)[:100]))
        return

def check(ctx, report):
    with open(os.path.join(HERE, 'reviewed.json')) as f:
        reviewed = json.load(f).get('C09', {})
    speccheck.run(ctx, report, 'C09', 'opp.json', MODULES, reviewed)
    return_class(ctx, report)
    openvpn_key_id_accepted(ctx, report)
    # capability / state / protocol flag words are the OR of the members held (rule shared with C11.R15)
    from .c11 import flag_sets_written_as_held
    flag_sets_written_as_held(ctx, report, RULE='C09.R19', title='MySQL / RDP flag words are the OR of the members held: nothing is added on the way to compose_numeric_flags')
    tag_discrimination(ctx, report)
    constants(ctx, report)
    ldap_schema(ctx, report)
    report.floor('C09.R1', 25, 'layout comparisons')
    report.floor('C09.R2', 100, 'registry members')
    # an optional part one side keys on a capability flag is keyed on the same flag by the other side (shared with C01.R12)
    from .c01 import flag_keyed_optionals
    opp = {c.name for c in ctx.model.all_classes if getattr(getattr(c, 'module', None), 'relpath', '').startswith(
        ('cryptoparser/tls/mysql.py', 'cryptoparser/tls/rdp.py', 'cryptoparser/tls/openvpn.py', 'cryptoparser/tls/ldap.py', 'cryptoparser/tls/postgresql.py'))}
    flag_keyed_optionals(ctx, report, RULE='C09.R11', only=opp)
    # capability / status / protocol flag words are the OR of their members, whatever iterable holds them (shared with C11.R4)
    from .c11 import flags_and_timestamps
    report.rule('C09.R12', 'flag words (MySQL capabilities and status, RDP flags and protocols): the OR of the members, read back as the members')
    flags_and_timestamps(ctx, report, R4='C09.R12', R5='C09.R12')


def find_objs(v, out):
    if isinstance(v, tuple) and v:
        find_objs(v[0], out)
    elif isinstance(v, ObjV):
        out.append(v)
    elif isinstance(v, Sym) and v.op == 'phi':
        for a in v.args:
            find_objs(a, out)


def return_class(ctx, report):
    report.rule('C09.R3', '_parse returns an object of the receiving class')
    model = ctx.model
    for c in model.concrete_parsables():
        if c.module.name not in MODULES and not c.module.name.startswith('cryptoparser.'):
            continue
        f = c.resolve('_parse')
        if f.cls is c:
            continue                # a _parse defined in the class itself may name the class
        res = ctx.canon.layout(c, 'parse').result
        objs = []
        find_objs(res.value, objs)
        for o in objs:
            report.count('C09.R3')
            if o.cls is not c and not (c.is_subclass_of(o.cls) and False) and model.is_parsable(o.cls):
                if o.cls in [x for x in c.mro if isinstance(x, ClassInfo)] and o.cls.abstract_methods:
                    continue
                report.add('C09.R3', '%s@returns[%s]' % (f.construct, o.cls.name),
                           '%s inherits _parse from %s, which constructs %s instead of cls: a %s on the wire is returned as a %s' % (
                               c.name, f.cls.name, o.cls.name, c.name, o.cls.name))


TAG_METHODS = ('get_handshake_type', 'get_extension_type', 'get_message_code', 'get_op_code', 'get_message_type',
               'get_extension_name', '_get_type', 'get_type')


def tag_discrimination(ctx, report):
    report.rule('C09.R4', 'every tagged message class checks the tag it read against its own tag')
    model = ctx.model
    for c in model.concrete_parsables():
        tag = None
        for m in TAG_METHODS:
            g = c.resolve(m)
            if g is not None and not g.abstract and g.kind == 'classmethod':
                tag = m
                break
        if tag is None:
            continue
        if c.module.name.split('.')[1] not in ('tls', 'ssh'):
            continue
        f = c.resolve('_parse')
        res = ctx.canon.layout(c, 'parse').result
        report.count('C09.R4')
        from ..trace import Inline
        called = any(isinstance(n, Inline) and n.callee.name == tag for n in walk(res.block))
        raises = [n for n in walk(res.block) if isinstance(n, Raise) and ('InvalidType' in show(n.exc) or 'InvalidValue' in show(n.exc))]
        from ..layout import flatten_checks, structure
        items = structure(res.block)
        tagged_check = False
        for chk in flatten_checks(items):
            cond = show(chk[1])
            if any(isinstance(x, Raise) and ('InvalidType' in show(x.exc) or 'InvalidValue' in show(x.exc)) for x in chk[2]) and \
                    ('!=' in cond or 'not in' in cond or '==' in cond):
                tagged_check = True
        if c.name in ('SslErrorMessage', 'SslHandshakeClientHello', 'SslHandshakeServerHello'):
            continue        # SSL 2.0 messages: the type byte is read and dispatched by SslRecord (parse_variant)
        if not called or not tagged_check:
            report.add('C09.R4', '%s@tag[%s]' % (f.construct, tag),
                       '%s never compares the tag on the wire with %s(): another message of the family parses "successfully" as %s' % (c.name, tag, c.name))
    # LDAP: protocolOp name must be compared: decided by evaluating the two parsers over a family of protocolOp alternatives
    # (sa/ldapbridge.py); on their syntax when they leave the evaluable subset
    from ..ldapbridge import evaluate_messages
    ldap = evaluate_messages(ctx, load_spec('opp.json')['constants']['starttls_oid'])
    if not ldap['evaluated']:
        report.undecided.append('C09.R4: the LDAP message parsers left the subset the evaluation understands (%s); decided on their syntax' % ldap['why'])
    for cname, want in (('LDAPExtendedRequestStartTLS', 'extendedReq'), ('LDAPExtendedResponseStartTLS', 'extendedResp')):
        c = model.cls(cname)
        f = c.methods.get('_parse')
        report.count('C09.R4')
        if ldap['evaluated']:
            report.count('C09.R4', ldap['runs'] // 2)
            for aspect in ('tag[%s]' % cname, 'accepts[%s]' % cname, 'length[%s]' % cname):
                if aspect in ldap['problems']:
                    report.add('C09.R4', f.construct + '@' + (aspect.split('[')[0] + '[protocolOp]' if aspect.startswith('tag') else aspect.split('[')[0]),
                               '%s: %s' % (cname, ldap['problems'][aspect]))
            continue
        ok = False
        for n in ast.walk(f.node):
            if isinstance(n, ast.If) and "['protocolOp'].name" in ast.unparse(n.test) and want in ast.unparse(n.test) and \
                    any(isinstance(x, ast.Raise) for x in n.body):
                ok = True
        if not ok:
            report.add('C09.R4', f.construct + '@tag[protocolOp]', '%s does not check that the protocolOp on the wire is %s' % (cname, want))


def field_pinned(ctx, c, key, good, bads):
    """does the parser of ``c`` raise for every value of the parsed field ``key`` in ``bads`` and for ``good`` not?  Decided on
    the guards of the extracted parse trace (conditions in front of a raise), evaluated with the field set to each value -
    class constants, locals and the comparison operator used do not matter"""
    from ..symeval import NotEvaluable, evaluate
    from ..trace import Alt
    from ..values import FieldV
    res = ctx.canon.layout(c, 'parse').result
    guards = [n for n in walk(res.block) if isinstance(n, Alt) and any(isinstance(x, Raise) for x in walk(n.then)) and
              not any(isinstance(x, Raise) and 'NotEnoughData' in show(x.exc) for x in walk(n.then))]

    def verdict(value):
        def leaf(v):
            if isinstance(v, FieldV) and v.key == key:
                return value
            raise NotEvaluable(show(v))
        hit = False
        for g in guards:
            try:
                if evaluate(g.cond, leaf):
                    hit = True
            except NotEvaluable:
                continue
        return hit
    return not verdict(good) and all(verdict(b) for b in bads)


def constants(ctx, report):
    report.rule('C09.R5', 'protocol constants')
    spec = load_spec('opp.json')['constants']
    model, it = ctx.model, ctx.interp
    checks = [('SslRequest', 'REQUEST_CODE', spec['postgresql_sslrequest_code']), ('SslRequest', 'MESSAGE_SIZE', spec['postgresql_sslrequest_length']),
              ('RDPNegotiationBase', 'PACKET_LENGTH', spec['rdp_negotiation_length'])]
    for cname, attr, want in checks:
        c = model.cls(cname)
        v = c.resolve_var(attr)
        report.count('C09.R5')
        got = it.eval_var(v) if v is not None else None
        if got != want:
            report.add('C09.R5', '%s@%s' % (c.construct, attr), '%s.%s is %s, the protocol says %s' % (cname, attr, show(got), want))
    c = model.cls('LDAPExtendedRequestStartTLS')
    report.count('C09.R5')

    def with_constants(node):
        # source text of a method with the byte / string class constants it names written out
        txt = ast.unparse(node)
        for k in [x for x in c.mro if hasattr(x, 'class_vars')]:
            for name, v in k.class_vars.items():
                if isinstance(v, ast.Constant) and isinstance(v.value, (bytes, str)):
                    val = v.value.decode('ascii', 'replace') if isinstance(v.value, bytes) else v.value
                    for ref in ('self.' + name, 'cls.' + name, c.name + '.' + name):
                        txt = txt.replace(ref, repr(val))
        return txt
    # the request name the composer hands to the encoder: by evaluation of compose (helpers and hooks of a base class included); the
    # text of the method with its constants written out decides when compose leaves the evaluable subset
    from ..ldapbridge import composed_messages
    composed = composed_messages(ctx).get(c.name)
    name_written = None
    try:
        name_written = composed['protocolOp']['extendedReq']['requestName'] if composed is not None else None
    except (KeyError, TypeError):
        name_written = b''
    compose_f = c.resolve('compose')
    if name_written is not None:
        if bytes(name_written if not isinstance(name_written, str) else name_written.encode('ascii')) != spec['starttls_oid'].encode('ascii'):
            report.add('C09.R5', c.construct + '@oid', 'StartTLS request name is not %s (compose hands %r to the encoder)' % (spec['starttls_oid'], name_written))
    elif compose_f is None or spec['starttls_oid'] not in with_constants(compose_f.node):
        report.add('C09.R5', c.construct + '@oid', 'StartTLS request name is not %s' % spec['starttls_oid'])
    # ... and the parser has to look at it: every extended request has the same protocolOp, the request name tells them apart
    report.count('C09.R5')
    from ..ldapbridge import evaluate_messages
    ldap = evaluate_messages(ctx, spec['starttls_oid'])
    ok = ldap['evaluated'] and 'request-name' not in ldap['problems']
    for n in ast.walk(c.resolve('_parse').node) if not ldap['evaluated'] else ():
        if isinstance(n, ast.If) and any(isinstance(x, ast.Raise) for x in n.body):
            t = with_constants(n.test)
            if 'requestName' in t and spec['starttls_oid'] in t and ('!=' in t or 'not in' in t):
                ok = True
    if not ok:
        report.add('C09.R5', c.resolve('_parse').construct + '@request-name',
                   'the StartTLS request parser does not compare the requestName on the wire with %s: any other extended request (Who am I?, password modify, '
                   'cancel) is returned as a StartTLS request' % spec['starttls_oid'])
    t = model.cls('TPKT')
    report.count('C09.R5')
    if not field_pinned(ctx, t, 'version', spec['tpkt_version'], (0, 1, 2, 4, 255)):
        report.add('C09.R5', t.construct + '@version', 'TPKT version %d is not enforced' % spec['tpkt_version'])
    # MySQL SSL request, split flag word (C01 reviewed equivalence): little endian, 2+2 = 4, shifts 0 and 16
    m = model.cls('MySQLHandshakeSslRequest')
    pc = ctx.canon.canon(m, 'parse')
    cc = ctx.canon.canon(m, 'compose')
    report.count('C09.R5')
    from ..layout import order_tag
    pflags = [e for e in pc.flat if e.kind == 'flags']
    cflags = [e for e in cc.flat if e.kind == 'flags']
    shifts = sorted(e.extra.get('shift', 0) for e in pflags)
    if shifts != [0, 16] or any(order_tag(e.order, 2) != 'le' for e in pflags + cflags) or sorted(e.w for e in cflags) != [2, 4] or \
            sorted(e.w for e in pflags) != [2, 2]:
        report.add('C09.R5', m.construct + '@capability-split', 'client capability flags must be read as two little-endian 16 bit halves (shift 0 and 16) and written as one '
                                                               'little-endian 32 bit word (or 16 bit before protocol 4.1)')


def ldap_schema(ctx, report):
    from .. import rejections
    from ..ldapbridge import evaluate_messages
    ldap = evaluate_messages(ctx, load_spec('opp.json')['constants']['starttls_oid'])
    # the LDAP message parsers: what they accept and refuse is decided by evaluation (C09.R4) when that is possible; the
    # table of explicit rejections covers them otherwise, and the other protocols always
    # what a parser returns is decided by the bytes it was given: a container that lives in a class level variable and is handed to
    # every parsed message would carry the edits made to earlier messages (rule shared with C13.R5)
    from .c13 import shared_containers
    shared_containers(ctx, report, RULE='C09.R9', only=lambda k: k.module.name in MODULES)
    # a flag word (capabilities, status) decodes to the same members whatever was decoded before: no memo at module or class level
    # between the wire word and the flag set (rules shared with C19.R5 / R10)
    from .c19 import module_level_state, stateless_parsing
    module_level_state(ctx, report, RULE='C09.R13', title='decoding a field does not depend on fields decoded earlier: no function changes a module level container')
    stateless_parsing(ctx, report, RULE='C09.R14', allow_memo=True, modules=('cryptoparser/common/parse.py', 'cryptoparser/tls/mysql.py', 'cryptoparser/tls/rdp.py',
                                                                          'cryptoparser/tls/openvpn.py', 'cryptoparser/tls/ldap.py', 'cryptoparser/tls/postgresql.py'),
                      title='no function between the wire bytes of an opportunistic-TLS message and the object writes class level state')
    # the length a message parser reports is the number of bytes the message occupies (LDAP: the whole envelope, long form lengths
    # included); rule shared with C03.R3, on the classes of these modules
    from .c03 import return_lengths
    ldap_result_code_map(ctx, report)
    # the smallest message of a class is accepted by the parser of the class (rule shared with C01.R22)
    from .c01 import guards_admit_smallest
    guards_admit_smallest(ctx, report, RULE='C09.R17', only=set(MODULES), floor=3)
    report.rule('C09.R15', 'opportunistic-TLS messages: the reported length is the number of bytes the message occupied')
    return_lengths(ctx, report, RULE='C09.R15', only={k.name for k in ctx.model.concrete_parsables() if k.module.name in MODULES})
    report.floor('C09.R15', 8, 'message parse results')
    from .c11 import numeric_widths_shared
    numeric_widths_shared(ctx, report, 'C09.R10', 'fixed width integers (MySQL int<3> lengths, TPKT / COTP lengths): every width and byte order is written '
                          'exactly, a value that does not fit is refused, never truncated')
    from ..ldapbridge import evaluate as evaluate_bridge
    ldap_all = ldap['evaluated'] and evaluate_bridge(ctx)['evaluated']
    rejections.check(ctx, report, 'C09.R8', 'opp', skip=(lambda construct: ldap_all and 'tls/ldap.py:LDAP' in construct))
    null_terminated(ctx, report)
    report.rule('C09.R6', 'asn1crypto schema tables equal RFC 4511')
    spec = load_spec('opp.json')['ldap']
    model, it = ctx.model, ctx.interp
    lm = model.modules.get('cryptoparser.tls.ldap')
    if lm is None:
        report.error('C09.R6: cryptoparser/tls/ldap.py vanished')
        return
    for cname, ent in spec.items():
        c = model.try_cls(cname)
        if c is None:
            report.error('C09.R6: %s vanished' % cname)
            continue
        key = 'fields' if 'fields' in ent else 'alternatives'
        var = c.resolve_var('_fields' if key == 'fields' else '_alternatives')
        report.count('C09.R6')
        if var is None or not isinstance(var.node, ast.List):
            report.add('C09.R6', c.construct + '@schema', 'schema table missing')
            continue
        got = []
        for el in var.node.elts:
            if not isinstance(el, ast.Tuple):
                continue
            name = el.elts[0].value if isinstance(el.elts[0], ast.Constant) else None
            typ = ast.unparse(el.elts[1]).split('.')[-1]
            opts = {}
            if len(el.elts) > 2 and not isinstance(el.elts[2], ast.Dict):
                # the parameters are built by a helper (``_context_tag(0, optional=True)``): evaluated from its own statements
                from ..miniexec import Evaluator, Raised, Unsupported, class_call_hook
                try:
                    h = class_call_hook(c, None, model)
                    val = Evaluator({}, h, h.name_hook_for(lm, None)).ev(el.elts[2])
                    if not isinstance(val, dict):
                        raise Unsupported('schema parameters are %r' % (val,))
                    opts = {k: (list(v) if isinstance(v, tuple) else v) for k, v in val.items()}
                except (Unsupported, Raised) as e:
                    report.add('C09.R6', '%s@schema[%s]' % (c.construct, name), 'the parameters of the schema entry cannot be evaluated: %s' % e)
                    continue
            if len(el.elts) > 2 and isinstance(el.elts[2], ast.Dict):
                for k, v in zip(el.elts[2].keys, el.elts[2].values):
                    kk = k.value
                    fr = it.new_frame(None, lm)
                    fr.quiet = True
                    vv = it.eval(v, fr)
                    if isinstance(vv, tuple):
                        vv = [x if isinstance(x, int) else show(x) for x in vv]
                    opts[kk] = vv
            got.append([name, typ, opts])
        want = ent[key]
        if got != want:
            for g, w in zip(got + [None] * len(want), want + [None] * len(got)):
                if g != w:
                    report.add('C09.R6', '%s@schema[%s]' % (c.construct, (w or g)[0]), 'schema entry is %s, %s says %s' % (g, ent['ref'], w))
                    break
        else:
            report.sample({'rule': 'C09.R6', 'class': cname, 'entries': len(got), 'ref': ent['ref']})


# ---- R7: NUL terminated strings (MySQL string<NUL>) ---------------------------------------------------------------------

def null_terminated(ctx, report):
    """ParserBinary.parse_string_null_terminated evaluated (sa.miniexec) on the shapes the MySQL handshake uses: an empty
    string (a lone terminator), a string at offset 0 and at a later offset, and a missing terminator. The value is the
    bytes before the first 0x00 at or after the cursor, the cursor moves past the terminator, a missing terminator is
    InvalidValue."""
    import ast
    from ..miniexec import Evaluator, Native, Raised, Unsupported
    rule = 'C09.R7'
    report.rule(rule, 'NUL terminated strings: empty, at an offset, unterminated')
    pb = ctx.model.cls('ParserBinary')
    f = pb.methods.get('parse_string_null_terminated')
    if f is None:
        report.error('%s: ParserBinary.parse_string_null_terminated vanished' % rule)
        return
    report.touch(f)

    class Parser(Native):
        def __init__(self, data, pos):
            self._parsable, self._parsed_length, self._parsed_values = bytes(data), pos, {}

        @property
        def unparsed_length(self):
            return len(self._parsable) - self._parsed_length

        def _parse_string_by_length(self, name, min_length, max_length, encoding, converter):
            data = self._parsable[self._parsed_length:self._parsed_length + max_length]
            if len(data) < min_length:
                raise Unsupported('short read in the model')
            return data.decode(encoding), len(data)

    def hook(n, ev):
        d = ast.unparse(n.func)
        if d == 'six.iterbytes':
            return list(bytes(ev.ev(n.args[0])))
        if d == 'six.raise_from':
            raise Raised(ast.unparse(n.args[0]))
        return NotImplemented
    cases = [(b'\x00rest', 0, '', 1), (b'ab\x00cd', 0, 'ab', 3), (b'xy\x00ab\x00zz', 3, 'ab', 6), (b'8.0.33\x00', 0, '8.0.33', 7), (b'\x00', 0, '', 1), (b'q\x00\x00', 2, '', 3)]
    try:
        for data, pos, want, end in cases:
            report.count(rule)
            me = Parser(data, pos)
            try:
                Evaluator({'self': me, 'name': 'v', 'encoding': 'ascii', 'converter': str}, hook, lambda name: str if name == 'str' else (_ for _ in ()).throw(Unsupported('free name ' + name))).function(f.node)
            except Raised as e:
                report.add(rule, '%s@%s' % (f.construct, 'empty' if want == '' else 'string'),
                           '%r at offset %d: a conformant %s string is refused (%s)' % (data, pos, 'empty' if want == '' else 'NUL terminated', e.what[:50]))
                continue
            got, cur = me._parsed_values.get('v'), me._parsed_length
            if got != want or cur != end:
                report.add(rule, '%s@%s' % (f.construct, 'empty' if want == '' else 'string'),
                           '%r at offset %d is read as %r with the cursor at %d; expected %r and %d' % (data, pos, got, cur, want, end))
        for data, pos in ((b'abc', 0), (b'ab\x00cd', 3), (b'', 0)):
            report.count(rule)
            me = Parser(data, pos)
            try:
                Evaluator({'self': me, 'name': 'v', 'encoding': 'ascii', 'converter': str}, hook, lambda name: str).function(f.node)
                report.add(rule, f.construct + '@unterminated', '%r at offset %d has no terminator but is accepted (value %r)' % (data, pos, me._parsed_values.get('v')))
            except Raised as e:
                if 'InvalidValue' not in e.what and 'NotEnoughData' not in e.what:
                    report.add(rule, f.construct + '@unterminated', 'a missing terminator raises %s' % e.what[:60])
    except Unsupported as e:
        report.add(rule, f.construct + '@tabulation', 'the primitive left the subset the tabulation understands: %s' % e)
