"""C02 -- parsing untrusted bytes fails only with the documented parse errors."""
from __future__ import annotations

import ast
import json
import os

from ..compare import parse_bindings
from ..escape import DOCUMENTED, Escape
from ..interp import Interp
from ..interp_call import external_table
from ..model import ClassInfo, EnumMember, dotted
from ..trace import Op, Risk, walk
from ..values import ClassV, FieldV, ObjV, Sym, ValidatorV, is_const, show

META = {
    'explanation': (
        'Exception-escape analysis. Every concrete parsable class\'s _parse is abstractly interpreted in deep mode: '
        'helpers are inlined through the static MRO and every DSL primitive of common/parse.py is interpreted with the '
        'call site\'s own arguments (so the converter/handler discipline of the primitives is read from their source, '
        'constant conditions such as `size in _SIZE_TO_FORMAT` are folded per call site). On the resulting trace the '
        'set of exception classes that can leave is computed: explicit raises, re-raises, six.raise_from, nested class '
        'parsers (fixpoint over the class containment graph), and risky operations on non-constant values (codec '
        'calls, int()/float(), next(), constant-index subscripts, dict/parser key lookups, enum conversions, external '
        'callables per sa/external.json), minus what enclosing handlers catch (subclass aware). Obligation: the set is '
        'within {NotEnoughData, TooMuchData, InvalidDataLength, InvalidValue, InvalidType}. R3 adds attrs converters / '
        'non-optional validators of the object constructed from parsed values (enum converter fed with a raw integer, '
        'nullable timestamp into a non-optional field) and the single-bit requirement of flag enums. A report carries '
        'the call path to the raise. May-rule: silent where provenance is unknown.'
        ' R3 also covers library functions used as attrs converters; R4 decides datetime.fromtimestamp per call site (visibly bounded argument or ValueError/OverflowError/OSError), asn1crypto\'s lazy .native (ValueError/KeyError) and that the LDAP bridge decodes eagerly inside its handler; R5: nullable columns of the data tables are dereferenced only behind a type / None test.'),
    'assumptions': ['summaries of external callables in sa/external.json',
                    'sites listed in sa/reviewed.json (C02) were read by hand; each cites a fact that is re-checked',
                    'AttributeError/TypeError from dynamically typed misuse, RecursionError and MemoryError are not modelled'],
    'trusted_base': ['python ast', 'sa.interp (deep mode)', 'sa.escape', 'sa/external.json', 'sa/reviewed.json'],
    'exhaustive': True,
}

META['explanation'] += ' ' + "R1: explicit raises of undocumented exceptions on parse paths. R2: parser keys defined on every path before they are read. R6: multi-directive values whose absent directive defaults to None must accept None in the field's validator. R7: json.loads results are type-checked (isinstance dict, raising) before use as a mapping, and objects built from their members are built under a handler for TypeError / ValueError / OverflowError; json.loads is recorded as raising ValueError and RecursionError. R8: the class parse_parsable produces (after the field's converter) is accepted by the instance_of / deep_iterable validator of the receiving field, item types of vectors included. The flag conversion inside parse_numeric_flags is discharged by evaluating the function over every 1 and 2 byte wire word with a model flag class that leaves bits unowned. Library errors can be tied to one kind of argument (from_params: EC parameters only). Index risks honour enclosing len(x) > k bounds."
META['explanation'] += ' ' + 'Library objects built from DER (from_der / load) decode lazily: any member other than the stored bytes read outside a ValueError handler is a risk; alternatives of parsers (try: parser = helper(...) except: parser = ParserBinary(...)) are followed; dateutil.parser.parse is recorded as raising decimal.InvalidOperation.'

META['explanation'] += ' ' + 'R9: no function on the parse side reaches itself through calls (shared with C19.R8). R4 knows TypeError / AttributeError of the lazy ASN.1 decoder (external.json).'
HERE = os.path.dirname(os.path.dirname(os.path.abspath(__file__)))


def norm_exc(e):
    if e.endswith('.InvalidValue'):
        return 'InvalidValue'
    return e


def site_key(w):
    """stable key of the raising site from the last witness entry: 'Func: what on operand' -> ('Func', 'what')"""
    last = w[-1]
    func, _, rest = last.partition(': ')
    what = rest.split(' on ')[0]
    return func, what


def check(ctx, report):
    model = ctx.model
    with open(os.path.join(HERE, 'reviewed.json')) as f:
        reviewed = json.load(f).get('C02', {})
    with open(os.path.join(HERE, 'nondsl.json')) as f:
        nondsl = json.load(f)
    report.rule('C02.R1', 'escape(C._parse) within the documented set (raises, re-raises, nested parsers)')
    report.rule('C02.R2', 'parser keys are defined on every path before they are read')
    report.rule('C02.R3', 'converters/validators of objects built from parsed values cannot raise undocumented errors')
    table_shape(ctx, report)
    eager_decoding(ctx, report)
    absent_directive_defaults(ctx, report)
    decoded_documents(ctx, report)
    validator_agreement(ctx, report)
    # a function of the parse side that reaches itself recurses once per item of the input: RecursionError is not a parse error
    from .c19 import function_recursion
    function_recursion(ctx, report, RULE='C02.R9')
    report.rule('C02.R4', 'risky operations on input derived values are guarded or converted')
    deep = Interp(model, deep=True)
    es = Escape(model, deep)
    funcs = {f.qualname: f for f in model.functions()}
    used_reviews = set()
    dnskey_sites = set()
    n_risk = 0
    for c in model.concrete_parsables():
        esc = es.of_class(c)
        report.count('C02.R1')
        report.touch(c.resolve('_parse'))
        for (e, _site), w in esc.items():
            e = norm_exc(e)
            if e in DOCUMENTED:
                continue
            fname, what = site_key(w)
            rk = '%s|%s|%s' % (fname, what, e.split('.')[-1])
            if what == 'int' and e.endswith('ValueError') and fname in funcs and int_args_are_digit_groups(ctx, funcs[fname]):
                used_reviews.add(rk)
                report.sample({'rule': 'C02.R4', 'site': fname, 'operation': 'int', 'verdict': 'every int() argument is a group of a class level pattern that matches digits only'})
                continue
            if e.endswith('IndexError') and fname in ('ParserBinary._parse_mpint', 'ParserBinary.parse_ssh_mpint', 'ParserBinary.parse_mpint'):
                verdict = mpint_prefixes_decided(ctx, report)
                if verdict is True:
                    used_reviews.add(rk)
                    report.sample({'rule': 'C02.R4', 'site': fname, 'operation': what, 'verdict': 'every prefix of the evaluated mpint encodings gives a value or NotEnoughData'})
                    continue
                if verdict is not None:
                    used_reviews.add(rk)
                    report.add('C02.R4', '%s@escape[IndexError:%s]' % (funcs[fname].construct if fname in funcs else fname, what),
                               'IndexError can escape a parse entry point: %s' % verdict)
                    continue
            if what == 'key' and e.endswith('KeyError') and fname.startswith('LDAP') and ldap_keys_decided(ctx):
                used_reviews.add(rk)
                report.sample({'rule': 'C02.R4', 'site': fname, 'operation': 'key', 'verdict': 'no KeyError for any evaluated protocolOp alternative (sa/ldapbridge.py)'})
                continue
            if rk in reviewed:
                used_reviews.add(rk)
                if rk in TABULATED:
                    ok = TABULATED[rk](ctx, report, funcs.get(fname))
                    if ok is True:
                        continue            # decided by evaluation over the exhaustive membership domain
                    if ok is False:
                        continue            # reported by the tabulation
                if reviewed_fact(rk, reviewed[rk], funcs, ctx):
                    continue
                report.add('C02.R4', 'reviewed@' + rk, 'reviewed site changed shape: ' + reviewed[rk]['reason'])
                continue
            if what == 'int' and e.endswith('ValueError') and fname in funcs and int_args_are_digit_groups(ctx, funcs[fname]):
                report.sample({'rule': 'C02.R4', 'site': fname, 'operation': 'int', 'verdict': 'every int() argument is a group of a class level pattern that matches digits only'})
                continue
            if what == 'enumconv' and fname == 'ParserBinary.parse_numeric_flags':
                why = flags_conversion_total(ctx, report)
                if why is None:
                    continue        # single-bit members (rule below) + tabulation: the conversion is applied to members only
                report.add('C02.R4', '%s@escape[ValueError:enumconv]' % funcs[fname].construct,
                           'the flag conversion inside parse_numeric_flags is not confined to members of the flag class: %s' % why)
                continue
            if e.endswith('NotImplementedError') and fname.startswith('DnsRecordDnskey.'):
                dnskey_sites.add(fname)
                continue        # discharged (or reported) by the data side condition below
            f = funcs.get(fname)
            where = f.construct if f is not None else fname
            rule = 'C02.R2' if what == 'key' and 'key' in w[-1] and ('maybekey' in w[-1] or 'missingkey' in w[-1]) else \
                ('C02.R1' if what.startswith('raise') or what == 're-raise' else 'C02.R4')
            report.add(rule, '%s@escape[%s:%s]' % (where, e.split('.')[-1], what),
                       '%s can escape a parse entry point: %s' % (e.split('.')[-1], ' > '.join(w[-5:])),
                       witness={'class': c.name, 'path': w})
    # count risk sites (distinct) for the evidence
    risk_sites = set()
    for key, res in es.traces.items():
        for n in walk(res.block):
            if isinstance(n, Risk):
                risk_sites.add((n.func.qualname if n.func else '?', n.what))
    report.count('C02.R4', len(risk_sites))
    for (fn, what) in sorted(risk_sites)[:10]:
        report.sample({'rule': 'C02.R4', 'site': fn, 'operation': what})
    if 'mv' not in _TAB_CACHE:
        # the abstract run no longer sees a risky subscript in the multi-directive parse (open mappings): the evaluation over the
        # membership domain decides the dictionary accesses of that function on its own (pop / [] of a directive that is absent)
        verdict = multi_directive_keys(ctx, report, funcs.get('FieldValueMultiple._parse_basic_params'))
        report.sample({'rule': 'C02.R4', 'site': 'FieldValueMultiple._parse_basic_params', 'operation': 'key',
                       'verdict': {True: 'no KeyError on any evaluated combination of attributes and directives', False: 'reported',
                                   None: 'not evaluable here'}[verdict]})
    for rk in reviewed:
        if rk not in used_reviews:
            report.notes.append('reviewed C02 entry not needed any more: %s' % rk)
    dnskey_side_condition(ctx, report, dnskey_sites, funcs)
    flags_single_bit(ctx, es, report)
    constructed_objects(ctx, report)
    report.floor('C02.R1', 300, 'concrete parsable classes')
    report.floor('C02.R4', 25, 'risky operation sites')


def mpint_prefixes_decided(ctx, report):
    """ParserBinary.parse_ssh_mpint / parse_mpint evaluated (sa.miniexec, through sa.props.c11's models) on *every prefix* of
    the encodings of integers of both signs and of the empty mpint, behind 0 and 3 bytes of other data: each prefix gives the
    value or NotEnoughData - an IndexError (a sign octet read past the end) would surface as such"""
    if 'mpint' in _TAB_CACHE:
        return _TAB_CACHE['mpint']
    from ..miniexec import Raised, Unsupported
    from . import c11
    model = ctx.model
    c11._MODEL['model'] = model
    pb = model.cls('ParserBinary')
    values = [0, 1, 0x7f, 0x80, 0xff, 0x100, -1, -0x80, -0x81, (1 << 31), (1 << 32) - 1, 1 << 32, -(1 << 31), (1 << 64) + 5, -(1 << 63)]
    ok, runs = True, 0
    try:
        for v in values:
            enc = c11.rfc4251_mpint(v)
            for prefix in (b'', b'\x01\x02\x03'):
                for cut in range(0, len(enc) + 1):
                    runs += 1
                    try:
                        got = c11.parse_mpint_by_ast(pb, enc[:cut], prefix=prefix, model=model)
                        if cut < len(enc) and ok is True:
                            ok = 'the first %d of the %d bytes of an SSH mpint are accepted as %r' % (cut, len(enc), got[0])
                    except Raised as e:
                        if 'NotEnoughData' not in e.what and cut < len(enc) and ok is True:
                            ok = 'the first %d of the %d bytes of an SSH mpint (%s) raise %s' % (cut, len(enc), enc[:cut].hex(), e.what[:60])
        # fixed length mpints: every length against every shorter buffer
        for length in (1, 3, 4, 5, 8):
            for have in range(0, length):
                runs += 1
                try:
                    c11.parse_mpint_by_ast(pb, b'\x81' * have, method='parse_mpint', extra={'mpint_length': length}, model=model)
                    if ok is True:
                        ok = '%d bytes are accepted as a %d byte integer' % (have, length)
                except Raised as e:
                    if 'NotEnoughData' not in e.what and ok is True:
                        ok = '%d of the %d bytes of a fixed length integer raise %s' % (have, length, e.what[:60])
    except (Unsupported, KeyError, TypeError):
        ok = None
    if ok is True:
        report.count('C02.R4', runs)
    _TAB_CACHE['mpint'] = ok
    return ok


def ldap_keys_decided(ctx):
    """the keys the LDAP message parsers index the loaded message with exist for every protocolOp alternative the parsers let
    through: decided by evaluating them over a family of alternatives whose field tables lack the keys of the others"""
    import json as _json
    from ..ldapbridge import evaluate_messages
    with open(os.path.join(HERE, 'specs', 'opp.json')) as fh:
        oid = _json.load(fh)['constants']['starttls_oid']
    r = evaluate_messages(ctx, oid)
    return r['evaluated'] and not any(k.startswith('keys[') for k in r['problems'])


def int_args_are_digit_groups(ctx, f):
    """is every ``int(x)`` of the function applied to a capture group of a regular expression held in a class or module level
    constant, and does that group match decimal digits only (one or more)?  Then int() cannot raise ValueError.  The
    pattern is parsed with the standard library's own parser (re._parser); the match object, its ``group(k)`` /
    ``groups()[k]`` / unpacked ``groups()`` and single-assignment locals are followed inside the function"""
    try:
        import re._parser as sre_parse
        import re._constants as sre
    except ImportError:                # pragma: no cover (python < 3.11)
        import sre_parse
        import sre_constants as sre
    node = f.node

    def assignments(name):
        out = []
        for n in ast.walk(node):
            if isinstance(n, ast.Assign):
                for t in n.targets:
                    if isinstance(t, ast.Name) and t.id == name:
                        out.append(('whole', n.value))
                    elif isinstance(t, (ast.Tuple, ast.List)):
                        for i, x in enumerate(t.elts):
                            if isinstance(x, ast.Name) and x.id == name:
                                out.append((i, n.value))
            elif isinstance(n, (ast.For, ast.comprehension)) and any(isinstance(x, ast.Name) and x.id == name for x in ast.walk(n.target)):
                out.append(('elem' if isinstance(n.target, ast.Name) else None, n.iter))
            elif isinstance(n, ast.arg) and n.arg == name:
                out.append((None, None))
        return out

    def pattern_of_match(e, depth=0):
        """pattern string of the regular expression a match object expression comes from"""
        if isinstance(e, ast.Name) and depth < 4:
            defs = assignments(e.id)
            pats = {pattern_of_match(v, depth + 1) if kind == 'whole' else None for kind, v in defs}
            return pats.pop() if len(pats) == 1 else None
        if isinstance(e, ast.Call) and isinstance(e.func, ast.Attribute) and e.func.attr in ('match', 'search', 'fullmatch'):
            r = e.func.value
            if isinstance(r, ast.Attribute) and isinstance(r.value, ast.Name) and r.value.id in ('cls', 'self') and f.cls is not None:
                var = f.cls.resolve_var(r.attr)
                src = getattr(var, 'node', var)
            elif isinstance(r, ast.Name):
                v = ctx.model.resolve_name(f.module, r.id)
                src = getattr(v, 'node', None)
            else:
                src = None
            if isinstance(src, ast.Call) and ast.unparse(src.func) in ('re.compile', 'compile') and src.args and isinstance(src.args[0], ast.Constant) \
                    and isinstance(src.args[0].value, str) and len(src.args) == 1 and not src.keywords:
                return src.args[0].value
        return None

    def digits_only(items):
        for op, av in items:
            if op in (sre.MAX_REPEAT, sre.MIN_REPEAT):
                lo, _hi, sub = av
                if not digits_only(list(sub)):
                    return False
            elif op is sre.IN:
                for iop, iav in av:
                    if iop is sre.RANGE and 48 <= iav[0] <= iav[1] <= 57:
                        continue
                    if iop is sre.LITERAL and 48 <= iav <= 57:
                        continue
                    if iop is sre.CATEGORY and iav is sre.CATEGORY_DIGIT:
                        continue
                    return False
            elif op is sre.LITERAL and 48 <= av <= 57:
                continue
            else:
                return False
        return True

    def group_is_number(pattern, k):
        try:
            tree = sre_parse.parse(pattern)
        except Exception:       # pylint: disable=broad-except
            return False
        found = []

        def walk_items(items):
            for op, av in items:
                if op is sre.SUBPATTERN:
                    gid, _a, _b, sub = av
                    if gid == k:
                        found.append(list(sub))
                    walk_items(list(sub))
                elif op in (sre.MAX_REPEAT, sre.MIN_REPEAT):
                    walk_items(list(av[2]))
                elif op is sre.BRANCH:
                    for alt in av[1]:
                        walk_items(list(alt))
        walk_items(list(tree))
        if len(found) != 1:
            return False
        sub = found[0]
        # one or more digits: at least one mandatory digit item
        mandatory = any((op in (sre.MAX_REPEAT, sre.MIN_REPEAT) and av[0] >= 1) or op in (sre.IN, sre.LITERAL) for op, av in sub)
        return mandatory and digits_only(sub)

    def n_groups(pattern):
        try:
            return sre_parse.parse(pattern).state.groups - 1
        except Exception:       # pylint: disable=broad-except
            return 0

    def digit_source(e, depth=0):
        if depth > 4:
            return False
        if isinstance(e, ast.Call) and isinstance(e.func, ast.Attribute) and e.func.attr == 'group' and len(e.args) == 1 and \
                isinstance(e.args[0], ast.Constant) and isinstance(e.args[0].value, int) and e.args[0].value >= 1:
            pat = pattern_of_match(e.func.value)
            return pat is not None and group_is_number(pat, e.args[0].value)
        if isinstance(e, ast.Subscript) and isinstance(e.slice, ast.Constant) and isinstance(e.slice.value, int) and e.slice.value >= 0 and \
                isinstance(e.value, ast.Call) and isinstance(e.value.func, ast.Attribute) and e.value.func.attr == 'groups' and not e.value.args:
            pat = pattern_of_match(e.value.func.value)
            return pat is not None and group_is_number(pat, e.slice.value + 1)
        if isinstance(e, ast.Name):
            defs = assignments(e.id)
            if not defs:
                return False
            for kind, v in defs:
                if kind == 'whole':
                    if not digit_source(v, depth + 1):
                        return False
                elif isinstance(kind, int) or kind == 'elem':
                    if not (isinstance(v, ast.Call) and isinstance(v.func, ast.Attribute) and v.func.attr == 'groups' and not v.args):
                        return False
                    pat = pattern_of_match(v.func.value)
                    if pat is None:
                        return False
                    ks = [kind + 1] if isinstance(kind, int) else list(range(1, n_groups(pat) + 1))
                    if not ks or not all(group_is_number(pat, k) for k in ks):
                        return False
                else:
                    return False
            return True
        return False
    calls = [n for n in ast.walk(node) if isinstance(n, ast.Call) and isinstance(n.func, ast.Name) and n.func.id == 'int']
    return bool(calls) and all(len(c.args) == 1 and not c.keywords and digit_source(c.args[0]) for c in calls)


_TAB_CACHE = {}


def multi_directive_keys(ctx, report, f):
    """KeyError out of FieldValueMultiple._parse_basic_params: decided by evaluating FieldValueMultiple._parse with its
    helpers over every membership pattern of the dictionaries involved (sa.props.c18.multi_value_parse_tabulation).
    True: no evaluated input raises KeyError; False: reported; None: not evaluable (the reviewed fact decides)"""
    from .c18 import multi_value_parse_tabulation
    if 'mv' not in _TAB_CACHE:
        _TAB_CACHE['mv'] = multi_value_parse_tabulation(ctx, ctx.thorough)
    runs, problems, unsupported = _TAB_CACHE['mv']
    if unsupported is not None:
        return None
    report.count('C02.R4', runs)
    hits = [d for k, d in problems if k == 'KeyError']
    if hits:
        report.add('C02.R4', '%s@escape[KeyError:key]' % (f.construct if f is not None else 'FieldValueMultiple._parse_basic_params'),
                   'KeyError can escape a parse entry point: %d of %d evaluated combinations of attributes and directives, e.g. %s' % (
                       len(hits), runs, hits[0][:300]))
        return False
    return True


TABULATED = {'FieldValueMultiple._parse_basic_params|key|KeyError': multi_directive_keys}


def reviewed_fact(rk, entry, funcs, ctx):
    fname = rk.split('|')[0]
    f = funcs.get(fname)
    if f is None:
        return False
    def norm(t):
        return ''.join(ch for ch in t if ch not in ' \n\t()"\'')
    src = norm(ast.unparse(f.node))
    return all(norm(x) in src for x in entry.get('facts', []))


def dnskey_side_condition(ctx, report, sites, funcs):
    """The three ``raise NotImplementedError`` of DnsRecordDnskey key parsing are unreachable iff, in the dependency's
    tables, every DNSSEC algorithm that has a signature algorithm has a key type handled by parse_key, every
    ECDSA/GOST typed one is named in _parse_public_key_ecdsa and every EdDSA typed one in _parse_public_key_eddsa.
    The handled names are read from the comparisons in the source, the tables from the JSON files."""
    model, it = ctx.model, ctx.interp
    if not sites:
        return
    alg = model.try_cls('DnsSecAlgorithm')
    sig = model.try_cls('Signature')
    if alg is None or sig is None or not alg.enum_members or not sig.enum_members:
        report.undecided.append('DnsRecordDnskey: dependency tables not available for the NotImplementedError side condition')
        return

    from ..codecs import dnskey_record
    ev = dnskey_record(ctx)
    if ev['evaluated']:
        # decided by running _parse on one record per algorithm code of the registry and on keys of several sizes (sa/codecs.py):
        # whatever the dispatch looks like - an if chain, a table of method names - only the documented errors may come out
        report.count('C02.R1', ev['runs'])
        for name, text in sorted(ev['unhandled'].items()):
            report.add('C02.R1', 'cryptoparser/dnsrec/record.py:DnsRecordDnskey.parse_key@unhandled[%s]' % name, text)
        return
    report.add('C02.R1', 'cryptoparser/dnsrec/record.py:DnsRecordDnskey.parse_key@evaluation',
               'which key formats parse_key handles could not be decided: DnsRecordDnskey left the subset the evaluation understands (%s)' % ev['why'])
    return

    def names_compared(fname, root):
        f = funcs.get(fname)
        out = set()
        if f is None:
            return out
        for n in ast.walk(f.node):
            if isinstance(n, ast.Attribute) and isinstance(n.value, ast.Attribute) is False and isinstance(n.value, ast.Name) and n.value.id == root:
                out.add(n.attr)
        return out
    key_types = names_compared('DnsRecordDnskey.parse_key', 'Authentication')
    ecdsa_names = names_compared('DnsRecordDnskey._parse_public_key_ecdsa', 'DnsSecAlgorithm')
    eddsa_names = names_compared('DnsRecordDnskey._parse_public_key_eddsa', 'DnsSecAlgorithm')
    for name, row in alg.enum_members.items():
        report.count('C02.R1')
        a = row.get('algorithm')
        if a is None or a not in sig.enum_members:
            continue            # no signature algorithm: rejected before the dispatch is reached (or AttributeError: not decided)
        kt = sig.enum_members[a].get('key_type')
        member = name.replace('-', '_')
        if kt not in key_types:
            report.add('C02.R1', 'cryptoparser/dnsrec/record.py:DnsRecordDnskey.parse_key@unhandled[%s]' % name,
                       'DNSSEC algorithm %s has key type %s, which parse_key does not handle: NotImplementedError escapes' % (name, kt))
        elif kt in ('ECDSA', 'GOST_R3410_01') and member not in ecdsa_names:
            report.add('C02.R1', 'cryptoparser/dnsrec/record.py:DnsRecordDnskey._parse_public_key_ecdsa@unhandled[%s]' % name,
                       'DNSSEC algorithm %s reaches the ECDSA branch but is not one of %s: NotImplementedError escapes' % (name, sorted(ecdsa_names)))
        elif kt == 'EDDSA' and member not in eddsa_names:
            report.add('C02.R1', 'cryptoparser/dnsrec/record.py:DnsRecordDnskey._parse_public_key_eddsa@unhandled[%s]' % name,
                       'DNSSEC algorithm %s reaches the EdDSA branch but is not one of %s: NotImplementedError escapes' % (name, sorted(eddsa_names)))


_FLAGS_TOTAL = {}


def flags_conversion_total(ctx, report):
    """Evaluate the statements of ParserBinary.parse_numeric_flags over every 1 and 2 byte wire word (shift 0) and a
    sample of shifted ones, with a model flag class of single-bit members that leaves some bits unowned: calling the
    class on anything that is not a member raises ValueError, as enum classes do.  None when no word raises."""
    if 'why' in _FLAGS_TOTAL:
        return _FLAGS_TOTAL['why']
    from ..miniexec import Evaluator, Native, Raised, Unsupported, class_call_hook
    pb = ctx.model.cls('ParserBinary')
    f = pb.resolve('parse_numeric_flags')
    report.touch(f)
    hook = class_call_hook(pb, None, ctx.model)

    class Flags(Native):
        def __init__(self, members):
            self.members = list(members)

        def __iter__(self):
            return iter(self.members)

        def __call__(self, v):
            if v not in self.members:
                raise ValueError('%#x is not a valid flag' % v)
            return v

    class State(Native):
        _repo_class = pb       # helper methods of the parser class are evaluated from their own statements

        def __init__(self, wire):
            self._parsed_length, self._parsed_values, self.wire = 0, {}, wire

        def _parse_numeric_array(self, name, item_num, item_size, cls_):
            return [self.wire], item_size
    why = None
    n = 0
    try:
        for size, shift, members, words in ((1, 0, (0x01, 0x02, 0x10, 0x80), range(256)),
                                            (2, 0, (0x0001, 0x0100, 0x0200, 0x8000), range(0, 65536, 1)),
                                            (2, 16, (0x1, 0x10000, 0x200000, 0x80000000), range(0, 65536, 251))):
            fl = Flags(members)
            for w in words:
                n += 1
                me = State(w)
                Evaluator({'self': me, 'name': 'f', 'size': size, 'flags_class': fl, 'shift_left': shift}, hook,
                          hook.name_hook_for(f.module, lambda name: int if name == 'int' else (_ for _ in ()).throw(Unsupported('free name ' + name)))).function(f.node)
    except Raised as e:
        why = 'wire word %#x (%d byte(s), shift %d, members %s) raises %s' % (w, size, shift, [hex(m) for m in members], e.what)
    except Unsupported as e:
        why = 'the function left the subset the tabulation understands (%s), so the conversion is not discharged' % e
    report.sample({'rule': 'C02.R4', 'site': 'ParserBinary.parse_numeric_flags', 'tabulated_wire_words': n, 'verdict': why or 'no word raises'})
    _FLAGS_TOTAL['why'] = why
    return why


def flags_single_bit(ctx, es, report):
    """parse_numeric_flags builds flags_class(flag & value) for every member that intersects the value: that is a
    member for every input iff each member is a single bit (or 0)."""
    it = ctx.interp
    seen = set()
    for key, res in es.traces.items():
        for n in walk(res.block):
            if isinstance(n, Op) and n.prim == 'parse_numeric_flags':
                fc = n.args.get('flags_class')
                if not (isinstance(fc, ClassV) and isinstance(fc.cls, ClassInfo)) or fc.cls in seen:
                    continue
                seen.add(fc.cls)
                report.count('C02.R3')
                for name in fc.cls.enum_members:
                    v = it.enum_value(EnumMember(fc.cls, name))
                    if isinstance(v, int) and v != 0 and (v & (v - 1)) != 0:
                        report.add('C02.R3', '%s@flag[%s]' % (fc.cls.construct, name),
                                   'flag member %s=%#x has several bits: a value sharing only some of them makes '
                                   'flags_class(flag & value) raise ValueError inside parse_numeric_flags' % (name, v))


VALUE_VALIDATORS = {'max_len', 'min_len', 'lt', 'le', 'gt', 'ge', 'matches_re'}


def constructed_objects(ctx, report):
    """R3: enum converters fed with raw integers, nullable timestamps into non-optional validators."""
    model, it = ctx.model, ctx.interp
    from ..core import representatives
    for c in representatives(ctx, '_parse'):
        lay = ctx.canon.layout(c, 'parse')
        res = lay.result
        objs = []
        find_objs(res.value, objs)
        for o in objs:
            k = o.cls
            if not k.has_attrs():
                continue
            for pname, pv in (o.ctor_args or {}).items():
                fld = k.field(pname)
                if fld is None:
                    continue
                report.count('C02.R3')
                fr = it.new_frame(None, fld.owner.module, recv=ClassV(fld.owner), defcls=fld.owner)
                fr.quiet = True
                conv = it.eval(fld.converter_node, fr) if fld.converter_node is not None else None
                val = it.eval(fld.validator_node, fr) if fld.validator_node is not None else None
                src = field_source(pv)
                # validators of the attrs library that constrain the *value* (not the type) raise ValueError inside the generated
                # __init__: a parsed value reaches them outside every handler of the parser
                if fld.validator_node is not None and src is not None:
                    constraining = sorted({n.attr for n in ast.walk(fld.validator_node) if isinstance(n, ast.Attribute) and n.attr in VALUE_VALIDATORS} |
                                          {n.id for n in ast.walk(fld.validator_node) if isinstance(n, ast.Name) and n.id in VALUE_VALIDATORS})
                    if constraining:
                        report.add('C02.R3', '%s@validator[%s]' % (c.resolve('_parse').construct, fld.name),
                                   'the parsed value %s is stored in %s.%s, whose validator %s raises ValueError for a value outside its bound: '
                                   'the error is raised inside the generated __init__, after the parser accepted the input, and is not one of the '
                                   'documented errors' % (src.key, k.name, fld.name, ' / '.join(constraining)))
                if isinstance(conv, ClassV) and isinstance(conv.cls, ClassInfo) and conv.cls.enum_members is not None and src is not None:
                    opconv = src.op.args.get('converter')
                    already = isinstance(opconv, ClassV) and opconv.cls is conv.cls
                    if not already and src.op.prim in ('parse_numeric', 'parse_string_by_length', 'parse_string_until_separator'):
                        report.add('C02.R3', '%s@converter[%s]' % (c.resolve('_parse').construct, fld.name),
                                   'parsed value %s is passed to the enum converter %s of %s.%s: an out-of-table value raises ValueError, which is not converted' % (
                                       src.key, conv.cls.name, k.name, fld.name))
                # a library function used as converter: its documented errors are raised inside the generated __init__, i.e.
                # outside every handler of the parser, unless the parse primitive already applied the same function
                cd = dotted(fld.converter_node) if fld.converter_node is not None else None
                ext_raises = external_table()['raises'].get(cd) if cd else None
                if ext_raises and src is not None:
                    applied = [show(src.op.args.get(a)) for a in ('item_class', 'converter') if src.op.args.get(a) is not None]
                    # already converted by the same function, or by a constructor of the same library module (ipaddress.IPv4Network
                    # before ipaddress.ip_network): the converter then receives an object it passes through
                    if not any(cd in x or (cd.split('.')[0] + '.') in x for x in applied):
                        report.add('C02.R3', '%s@converter[%s]' % (c.resolve('_parse').construct, fld.name),
                                   'parsed value %s reaches the converter %s of %s.%s unconverted: %s is raised inside the generated __init__, outside every handler' % (
                                       src.key, cd, k.name, fld.name, ' / '.join(x.split('.')[-1] for x in ext_raises)))
                # a converter of the dependency that hands its argument back unchanged when it cannot convert it, in front of an
                # instance_of validator: the validator then raises TypeError inside __init__ for undecodable wire text
                if isinstance(fld.converter_node, ast.Call) and isinstance(fld.converter_node.func, ast.Name) and src is not None and \
                        swallowing_converter(fld.converter_node.func.id) and fld.validator_node is not None and 'instance_of' in ast.unparse(fld.validator_node) and \
                        'optional' not in ast.unparse(fld.validator_node):
                    conv_applied = src.op.args.get('item_class') or src.op.args.get('converter')
                    if conv_applied is None or show(conv_applied) in ('Ext(builtins.str)', 'str'):
                        report.add('C02.R3', '%s@converter[%s]' % (c.resolve('_parse').construct, fld.name),
                                   'the text parsed as %s reaches %s.%s through %s(), which returns undecodable text unchanged; the instance_of validator then '
                                   'raises TypeError inside the generated __init__' % (src.key, k.name, fld.name, fld.converter_node.func.id))
                # a plain number (parse_numeric without converter) stored in a field whose validator admits instances of an enumeration
                # only: TypeError inside the generated __init__ for every value that takes this path
                same_key = [src.op] if src is not None else []
                if src is not None:
                    # the key may be read again on another path (``except InvalidValue: parser.parse_numeric('reason', 4)``)
                    tgt = getattr(src.op, 'target', None)
                    same_key += [o2 for o2 in getattr(tgt, 'ops', []) if o2 is not src.op and getattr(o2, 'prim', None) == 'parse_numeric' and
                                 o2.args.get('name') == src.key]
                if src is not None and any(o2.prim == 'parse_numeric' and (o2.args.get('converter') is None or show(o2.args.get('converter')) in (
                        'Ext(builtins.int)', 'int')) for o2 in same_key) and \
                        fld.validator_node is not None and fld.converter_node is None:
                    wanted = [dotted(a) or ast.unparse(a) for call in ast.walk(fld.validator_node)
                              if isinstance(call, ast.Call) and ast.unparse(call.func).endswith('instance_of') and 'optional' not in ast.unparse(fld.validator_node)[:40]
                              for a in call.args if not isinstance(a, (ast.Tuple, ast.List))]
                    enum_only = [w for w in wanted if model.try_cls(w.split('.')[-1]) is not None and
                                 getattr(model.try_cls(w.split('.')[-1]), 'enum_members', None) is not None]
                    if wanted and len(enum_only) == len(wanted):
                        report.add('C02.R3', '%s@number[%s]' % (c.resolve('_parse').construct, fld.name),
                                   'the number parsed as %s (no converter) is stored in %s.%s, which admits instances of %s only: the validator raises '
                                   'TypeError inside the generated __init__' % (src.key, k.name, fld.name, ' / '.join(enum_only)))
                # a factory that answers with one of several classes (ipaddress.ip_network: IPv4Network or IPv6Network, whichever the text
                # spells) in front of an instance_of validator that admits fewer: the text of the other family is converted without error
                # and the validator raises TypeError inside the generated __init__
                if src is not None and fld.validator_node is not None:
                    applied_fn = next((x for x in (src.op.args.get('item_class'), src.op.args.get('converter')) if x is not None), None)
                    shown = show(applied_fn) if applied_fn is not None else ''
                    for factory, classes in external_table().get('returns', {}).items():
                        if factory not in shown:
                            continue
                        admitted = set()
                        for call in ast.walk(fld.validator_node):
                            if isinstance(call, ast.Call) and ast.unparse(call.func).endswith('instance_of'):
                                for a in call.args:
                                    for e in (a.elts if isinstance(a, (ast.Tuple, ast.List)) else [a]):
                                        admitted.add(dotted(e) or ast.unparse(e))
                        missing = [k for k in classes if k not in admitted and k.split('.')[-1] not in admitted]
                        if admitted and missing:
                            report.add('C02.R3', '%s@factory[%s]' % (c.resolve('_parse').construct, fld.name),
                                       'the text parsed as %s is converted by %s, which also answers with %s; %s.%s admits %s only: the validator raises '
                                       'TypeError inside the generated __init__ for the other spelling' % (
                                           src.key, factory, ' / '.join(x.split('.')[-1] for x in missing), k.name, fld.name,
                                           ' / '.join(sorted(x.split('.')[-1] for x in admitted))))
                if src is not None and src.op.prim == 'parse_timestamp':
                    optional = isinstance(val, ValidatorV) and val.kind == 'optional'
                    if isinstance(val, ValidatorV) and val.kind == 'instance_of' and not optional:
                        report.add('C02.R3', '%s@nullable[%s]' % (c.resolve('_parse').construct, fld.name),
                                   'parse_timestamp stores None for the all-ones value, but %s.%s is validated with a non-optional instance_of: TypeError' % (k.name, fld.name))
            # **parser star arguments
            for s in o.star:
                from ..values import ParserV, DictV
                ps = [s] if isinstance(s, ParserV) else ([x for x in s.star if isinstance(x, ParserV)] if isinstance(s, DictV) else [])
                for p in ps:
                    for key, fv in p.keys.items():
                        if key in p.deleted:
                            continue
                        fld = k.field(key)
                        if fld is None or fv.op is None:
                            continue
                        report.count('C02.R3')
                        if fv.op.prim == 'parse_timestamp':
                            fr = it.new_frame(None, fld.owner.module, recv=ClassV(fld.owner), defcls=fld.owner)
                            fr.quiet = True
                            val = it.eval(fld.validator_node, fr) if fld.validator_node is not None else None
                            if isinstance(val, ValidatorV) and val.kind == 'instance_of':
                                report.add('C02.R3', '%s@nullable[%s]' % (c.resolve('_parse').construct, fld.name),
                                           'parse_timestamp stores None for the all-ones value, but %s.%s is validated with a non-optional instance_of: TypeError' % (k.name, fld.name))


def field_source(v):
    if isinstance(v, FieldV) and v.op is not None:
        return v
    return None


def find_objs(v, out):
    if isinstance(v, tuple) and v:
        find_objs(v[0], out)
    elif isinstance(v, ObjV):
        out.append(v)
    elif isinstance(v, Sym) and v.op == 'phi':
        for a in v.args:
            find_objs(a, out)


# ---- R5: shape of the data tables -------------------------------------------------------------------------------------

def table_shape(ctx, report):
    """a column of a data table (cryptodatahub JSON) that is null for some member, dereferenced as ``x.value.<col>.value...``
    on a value that came off the wire, raises AttributeError for those members unless a type / None test on the same
    prefix dominates the access and leaves through raise / return"""
    from ..model import ParamsValue
    model = ctx.model
    report.rule('C02.R5', 'nullable columns of the data tables are dereferenced only behind a type or None test')
    cols = {}
    for c in model.all_classes:
        if c.enum_members is None:
            continue
        for n, v in c.enum_members.items():
            if isinstance(v, ParamsValue):
                for k, val in v.fields.items():
                    if val is None:
                        cols.setdefault(k, {}).setdefault(c.name, []).append(n)
    for f in model.functions():
        if f.module.external:
            continue
        for n in ast.walk(f.node):
            if not (isinstance(n, ast.Attribute) and isinstance(n.value, ast.Attribute) and n.value.attr == 'value' and
                    isinstance(n.value.value, ast.Attribute) and isinstance(n.value.value.value, ast.Attribute) and n.value.value.value.attr == 'value'):
                continue
            col = n.value.value.attr
            if col not in cols:
                continue
            report.count('C02.R5')
            report.touch(f)
            prefix = ast.unparse(n.value.value)
            guarded = False
            for g in ast.walk(f.node):
                if isinstance(g, ast.If) and g.lineno < n.lineno:
                    t = ast.unparse(g.test)
                    leaves = bool(g.body) and isinstance(g.body[-1], (ast.Raise, ast.Return))
                    if leaves and ('not isinstance(%s,' % prefix in t or '%s is None' % prefix in t):
                        guarded = True
                    if ('isinstance(%s,' % prefix in t and 'not isinstance' not in t or '%s is not None' % prefix in t) and \
                            any(x is n for b in g.body for x in ast.walk(b)):
                        guarded = True
            if not guarded and f.cls is not None and f.cls.name == 'DnsRecordDnskey' and f.name != '__attrs_post_init__':
                # the guard may sit in the caller: decided by running the record parser on every algorithm code of the registry,
                # the members whose column is null included (sa/codecs.py dnskey_record; an AttributeError there is C02.R1's finding)
                from ..codecs import dnskey_record
                if dnskey_record(ctx)['evaluated']:
                    report.sample({'rule': 'C02.R5', 'site': f.construct, 'column': col, 'verdict': 'decided by evaluation over every member of the registry'})
                    continue
            if not guarded:
                who = '; '.join('%s.%s' % (e, '/'.join(ms[:3])) for e, ms in list(cols[col].items())[:3])
                report.add('C02.R5', '%s@deref[%s]' % (f.construct, ast.unparse(n)),
                           '%s dereferences the table column %r, which is null for %s: AttributeError for those code points' % (ast.unparse(n), col, who))


def eager_decoding(ctx, report):
    """asn1crypto decodes lazily: the handler of LDAPMessageParsableBase._parse_asn1 converts the decoder's errors only if
    the whole structure is decoded *inside* its try block, which ``<loaded object>.native`` forces. Without it the errors
    of a malformed inner field surface later, at the first ``.native`` / item access in the callers, outside any handler."""
    c = ctx.model.try_cls('LDAPMessageParsableBase')
    f = c.methods.get('_parse_asn1') if c is not None else None
    report.count('C02.R4')
    if f is None:
        report.error('C02.R4: LDAPMessageParsableBase._parse_asn1 vanished')
        return
    report.touch(f)
    from ..ldapbridge import evaluate
    br = evaluate(ctx)
    if br['evaluated']:
        # decided by evaluating the bridge against the library model: an error raised by .native must surface inside
        report.count('C02.R4', br['runs'])
        for aspect in ('eager', 'other', 'ok'):
            if aspect in br['problems']:
                report.add('C02.R4', f.construct + ('@eager-decode' if aspect == 'eager' else '@bridge[%s]' % aspect), br['problems'][aspect])
        return
    report.undecided.append('C02.R4: the LDAP bridge left the subset the evaluation understands (%s); decided on its syntax' % br['why'])
    ok = False
    for t in [n for n in ast.walk(f.node) if isinstance(n, ast.Try)]:
        loaded = set()
        for st in t.body:
            if isinstance(st, ast.Assign) and isinstance(st.value, ast.Call) and ast.unparse(st.value.func).endswith('.load'):
                loaded |= {x.id for x in st.targets if isinstance(x, ast.Name)}
            for n in ast.walk(st):
                if isinstance(n, ast.Attribute) and n.attr == 'native' and isinstance(n.value, ast.Name) and n.value.id in loaded:
                    ok = True
                if isinstance(n, ast.Attribute) and n.attr == 'native' and isinstance(n.value, ast.Call) and ast.unparse(n.value.func).endswith('.load'):
                    ok = True
    if not ok:
        report.add('C02.R4', f.construct + '@eager-decode',
                   'the loaded message is not fully decoded (<message>.native) inside the try block: decoding errors of inner fields are raised '
                   'later, outside the handler that turns them into InvalidValue / NotEnoughData')


def absent_directive_defaults(ctx, report):
    """FieldValueMultiple._parse_basic_params hands the attribute default to the constructor when a directive is absent. A
    default of None on a field whose validator is not optional(...) makes the converter / validator raise TypeError for a
    header that simply lacks the directive; a mandatory directive must have no default (absence is then InvalidValue)"""
    model = ctx.model
    report.rule('C02.R6', 'multi-directive values: a None default is accepted by the field\'s own validator (absent directive does not raise TypeError)')
    base = model.try_cls('FieldValueMultiple')
    if base is None:
        report.error('C02.R6: FieldValueMultiple vanished')
        return
    n = 0
    for c in model.all_subclasses(base):
        if not c.has_attrs():
            continue
        for fld in c.attrs_fields():
            d, v = fld.default_node, fld.validator_node
            if fld.owner is not c or not (isinstance(d, ast.Constant) and d.value is None):
                continue
            n += 1
            report.count('C02.R6')
            if v is not None and 'optional' not in ast.unparse(v):
                report.add('C02.R6', '%s@default[%s]' % (c.construct, fld.name),
                           'the directive %s defaults to None but its validator (%s) does not accept None: a value without that directive raises '
                           'TypeError out of the parser' % (fld.name, ast.unparse(v)[:60]))
    if n < 10:
        report.error('C02.R6: only %d None-defaulted directives found (anchor moved)' % n)


_SWALLOW = {}


def swallowing_converter(factory_name):
    """does the converter built by cryptodatahub.common.types.<factory_name>() return its argument unchanged when the
    conversion fails (``try: value = T(...) except ...: pass ; return value``)?  decided on the dependency source"""
    if factory_name in _SWALLOW:
        return _SWALLOW[factory_name]
    import os
    from ..model import find_dependency
    res = False
    try:
        with open(os.path.join(find_dependency() or '', 'common', 'types.py')) as fh:
            tree = ast.parse(fh.read())
        funcs = {n.name: n for n in tree.body if isinstance(n, ast.FunctionDef)}
        classes = {n.name: n for n in tree.body if isinstance(n, ast.ClassDef)}
        f = funcs.get(factory_name)
        if f is not None:
            for r in [n for n in ast.walk(f) if isinstance(n, ast.Return) and isinstance(n.value, ast.Call) and isinstance(n.value.func, ast.Name)]:
                k = classes.get(r.value.func.id)
                call = [m for m in (k.body if k else []) if isinstance(m, ast.FunctionDef) and m.name == '__call__']
                if call:
                    res = any(isinstance(h, ast.ExceptHandler) and len(h.body) == 1 and isinstance(h.body[0], ast.Pass) for h in ast.walk(call[0]))
    except (OSError, SyntaxError):
        res = False
    _SWALLOW[factory_name] = res
    return res


# ---- R7: documents decoded by a library (json.loads) have any shape ----------------------------------------------------

DECODERS = ('json.loads', 'json.load')
NOT_DOCUMENTED = ('TypeError', 'ValueError', 'OverflowError')


def decoded_documents(ctx, report):
    """json.loads returns whatever the sender wrote: an int, a list, null, an object with any members of any type.  In every
    function that decodes a document while parsing: (a) the result is used as a mapping (subscript, ``in``, iteration,
    ``**``) only after an ``isinstance(result, dict)`` test whose failure raises, and (b) an object constructed from members
    of the document is constructed inside a handler that turns TypeError, ValueError and OverflowError (missing argument,
    attrs instance_of, number conversion) into a parse error."""
    import ast
    report.rule('C02.R7', 'a document decoded by json.loads is type-checked before it is used as a mapping, and objects built from its members are built under a converting handler')
    n = 0
    for f in ctx.model.functions():
        if f.module.external:
            continue
        calls = [c for c in ast.walk(f.node) if isinstance(c, ast.Call) and ast.unparse(c.func) in DECODERS]
        if not calls:
            continue
        report.touch(f)
        parents = {}
        for x in ast.walk(f.node):
            for ch in ast.iter_child_nodes(x):
                parents[id(ch)] = x
        for call in calls:
            n += 1
            report.count('C02.R7')
            st = parents.get(id(call))
            while st is not None and not isinstance(st, ast.stmt):
                st = parents.get(id(st))
            if not (isinstance(st, ast.Assign) and len(st.targets) == 1 and isinstance(st.targets[0], ast.Name)):
                report.add('C02.R7', f.construct + '@document', 'the decoded document is not bound to a name the analysis can follow')
                continue
            doc = st.targets[0].id
            guard_line = None
            for x in ast.walk(f.node):
                if isinstance(x, ast.If) and isinstance(x.test, ast.UnaryOp) and isinstance(x.test.op, ast.Not) and \
                        isinstance(x.test.operand, ast.Call) and ast.unparse(x.test.operand.func) == 'isinstance' and \
                        ast.unparse(x.test.operand.args[0]) == doc and 'dict' in ast.unparse(x.test.operand.args[1]).lower() and \
                        any(isinstance(y, ast.Raise) for y in x.body):
                    guard_line = x.lineno
            uses = []
            for x in ast.walk(f.node):
                if isinstance(x, ast.Subscript) and isinstance(x.value, ast.Name) and x.value.id == doc:
                    uses.append(x)
                elif isinstance(x, ast.Compare) and any(isinstance(o, (ast.In, ast.NotIn)) for o in x.ops) and \
                        any(isinstance(cm, ast.Name) and cm.id == doc for cm in x.comparators):
                    uses.append(x)
                elif isinstance(x, (ast.For, ast.comprehension)) and isinstance(x.iter, ast.Name) and x.iter.id == doc:
                    uses.append(x.iter)
                elif isinstance(x, ast.Call) and any(k.arg is None and isinstance(k.value, ast.Name) and k.value.id == doc for k in x.keywords):
                    uses.append(x)
                elif isinstance(x, ast.Attribute) and isinstance(x.value, ast.Name) and x.value.id == doc:
                    uses.append(x)
            first_use = min((u.lineno for u in uses), default=None)
            if uses and (guard_line is None or guard_line > first_use):
                report.add('C02.R7', f.construct + '@document-shape[%s]' % doc,
                           'the decoded document %s is used as a mapping without a preceding isinstance(%s, dict) test that raises: a document that is a number, '
                           'a list or null escapes as TypeError' % (doc, doc))
            # constructions fed from the document
            for x in ast.walk(f.node):
                if not (isinstance(x, ast.Call) and any(isinstance(y, ast.Name) and y.id == doc for a in list(x.args) + [k.value for k in x.keywords] for y in ast.walk(a))):
                    continue
                fn = ast.unparse(x.func)
                if fn in DECODERS or fn == 'isinstance' or fn.endswith(('.get', '.items', '.keys', '.values', 'InvalidValue', 'InvalidType', 'ensure_text')):
                    continue
                covered = set()
                p = parents.get(id(x))
                child = x
                while p is not None:
                    if isinstance(p, ast.Try) and any(child is b or any(child is y for y in ast.walk(b)) for b in p.body):
                        for h in p.handlers:
                            names = ast.unparse(h.type) if h.type is not None else 'Exception'
                            if any(isinstance(y, ast.Raise) or (isinstance(y, ast.Call) and ast.unparse(y.func).endswith('raise_from')) for y in ast.walk(h)):
                                covered |= {e for e in NOT_DOCUMENTED if e in names or 'Exception' in names}
                    child, p = p, parents.get(id(p))
                missing = [e for e in NOT_DOCUMENTED if e not in covered]
                report.count('C02.R7')
                if missing:
                    report.add('C02.R7', f.construct + '@document-members[%s]' % fn,
                               '%s(...) is fed with members of the decoded document outside a handler for %s: a missing member, a member of another JSON type '
                               'or an unrepresentable number escapes as that exception' % (fn, ', '.join(missing)))
    if n == 0:
        report.error('C02.R7: no json.loads call found in the package (anchor moved)')


# ---- R8: what a parse primitive produces is what the validator of the receiving field accepts --------------------------------

def validator_agreement(ctx, report):
    """``cls(parser['x'])`` / ``cls(**parser)``: the value stored under x by parse_parsable is an instance of the parsed
    class (after the field's converter, of the converter class).  An instance_of validator naming other classes, or a
    deep_iterable validator whose member type is not the item type of the parsed vector, raises TypeError inside the
    generated __init__ as soon as the wire value is non-empty -- outside every handler of the parser."""
    from ..core import representatives
    from ..values import ParserV, DictV
    model, it = ctx.model, ctx.interp
    report.rule('C02.R8', 'the class a parse primitive produces is accepted by the validator of the field it is stored in')
    array_base = model.try_cls('ArrayBase')

    def classes_of(t):
        if isinstance(t, ClassV):
            return [t.cls]
        if isinstance(t, tuple):
            out = []
            for x in t:
                out.extend(classes_of(x))
            return out
        return [None]

    def accepts(types, produced):
        ks = classes_of(types)
        if any(k is None or not isinstance(k, ClassInfo) for k in ks):
            return True         # builtin / external types: not decided here
        return any(produced is k or produced.is_subclass_of(k) for k in ks)

    def item_type(vec):
        try:
            prm = it.const_call(vec, 'get_param')
        except Exception:      # pylint: disable=broad-except
            return None
        if not isinstance(prm, ObjV):
            return None
        ic = prm.attrs.get('item_class')
        if isinstance(ic, ClassV) and isinstance(ic.cls, ClassInfo):
            return ic.cls
        if prm.cls is not None and prm.cls.name in ('OpaqueParam', 'VectorParamNumeric'):
            return 'int'
        return None

    def examine(c, k, fld, op):
        if op is None or op.prim != 'parse_parsable':
            return
        pc = op.args.get('parsable_class')
        if not (isinstance(pc, ClassV) and isinstance(pc.cls, ClassInfo)) or pc.cls.is_subclass_of('VariantParsableBase') or pc.cls.abstract_methods:
            return
        produced = pc.cls
        if 'Factory' in produced.name or produced.enum_members is not None:
            return
        fr = it.new_frame(None, fld.owner.module, recv=ClassV(fld.owner), defcls=fld.owner)
        fr.quiet = True
        if fld.converter_node is not None:
            conv = it.eval(fld.converter_node, fr)
            if isinstance(conv, ClassV) and isinstance(conv.cls, ClassInfo):
                produced = conv.cls
            else:
                return
        val = it.eval(fld.validator_node, fr) if fld.validator_node is not None else None
        while isinstance(val, ValidatorV) and val.kind == 'optional':
            val = val.inner
        if not isinstance(val, ValidatorV):
            return
        report.count('C02.R8')
        where = '%s@validator[%s]' % (c.resolve('_parse').construct, fld.name)
        if val.kind == 'instance_of' and not accepts(val.type, produced):
            report.add('C02.R8', where, 'parse_parsable stores a %s, the instance_of validator of %s.%s accepts %s: TypeError inside the generated __init__' % (
                produced.name, k.name, fld.name, show(val.type)))
        if val.kind == 'deep_iterable':
            inner = val.inner
            while isinstance(inner, ValidatorV) and inner.kind == 'optional':
                inner = inner.inner
            if not (isinstance(inner, ValidatorV) and inner.kind == 'instance_of'):
                return
            ity = item_type(produced) if (array_base is not None and produced.is_subclass_of(array_base)) else None
            if ity is None:
                return
            want = classes_of(inner.type)
            if ity == 'int':
                bad = all(isinstance(w, ClassInfo) for w in want)
            else:
                bad = not accepts(inner.type, ity)
            if bad:
                report.add('C02.R8', where, 'parse_parsable stores a %s, whose items are %s; the deep_iterable validator of %s.%s wants members of %s: '
                           'TypeError inside the generated __init__ as soon as the vector is not empty' % (
                               produced.name, ity if ity == 'int' else ity.name, k.name, fld.name, show(inner.type)))
    for c in representatives(ctx, '_parse'):
        res = ctx.canon.layout(c, 'parse').result
        objs = []
        find_objs(res.value, objs)
        for o in objs:
            k = o.cls
            if not k.has_attrs():
                continue
            for pname, pv in (o.ctor_args or {}).items():
                fld = k.field(pname)
                src = field_source(pv)
                if fld is not None and src is not None:
                    examine(c, k, fld, src.op)
            for s in o.star:
                ps = [s] if isinstance(s, ParserV) else ([x for x in s.star if isinstance(x, ParserV)] if isinstance(s, DictV) else [])
                for p in ps:
                    for key, fv in p.keys.items():
                        fld = k.field(key)
                        if key not in p.deleted and fld is not None:
                            examine(c, k, fld, fv.op)
    report.floor('C02.R8', 40, 'parsed objects stored in validated fields')
