"""Shared driver of the specification comparisons (C06-C09): layouts of both sides vs the RFC tables, vector
bounds, numeric registries, coverage."""
from __future__ import annotations

import ast

from .model import ClassInfo, EnumMember, ParamsValue
from .spec import compare_with_spec, load_spec, prefix_width
from .values import ClassV, ObjV, is_const, show


def canonical_sig(sig):
    """``alt{A | B}`` and ``alt{B | A}`` are the same pair of alternatives (which arm the source puts first depends on how the test
    is spelled): arms in lexical order, the empty arm last"""
    def fix(text):
        out, i = '', 0
        while i < len(text):
            if text.startswith('alt{', i):
                depth, j = 0, i + 3
                bar = None
                while j < len(text):
                    if text[j] == '{':
                        depth += 1
                    elif text[j] == '}':
                        depth -= 1
                        if depth == 0:
                            break
                    elif text.startswith(' | ', j) and depth == 1 and bar is None:
                        bar = j
                    j += 1
                if bar is not None and j < len(text):
                    a, b = fix(text[i + 4:bar]), fix(text[bar + 3:j])
                    if b and (not a or b < a):
                        a, b = b, a
                    out += 'alt{%s | %s}' % (a, b)
                    i = j + 1
                    continue
            out += text[i]
            i += 1
        return out
    return fix(sig)


def diff_key(d):
    a, b = d.a, d.b
    what = None
    if a is not None and a.key is not None:
        what = str(a.key)
    elif a is not None:
        what = a.sig()
    elif b is not None:
        what = b.sig()
    return '%s[%s]' % (d.kind, canonical_sig(what) if isinstance(what, str) else what)


def run(ctx, report, prop, spec_file, modules, reviewed=None, skip_sides=None, only=None, sides=('parse', 'compose'), rules=None):
    model = ctx.model
    spec = load_spec(spec_file)
    table = spec['structures']
    reviewed = reviewed or {}
    skip_sides = skip_sides or {}
    R1, R2, R3 = rules or (prop + '.R1', prop + '.R2', prop + '.R3')
    if rules is None:
        report.rule(R1, 'extracted parser layout and composer layout each equal the layout written down from the specification')
        report.rule(R2, 'numeric registries equal the specification / IANA numbers')
        report.rule(R3, 'every wire structure of the protocol modules has a specification entry')
    seen = set()
    for name, entry in table.items():
        c = model.try_cls(name)
        if c is None:
            report.error('%s: specified class %s vanished' % (R1, name))
            continue
        seen.add(name)
        if only is not None and not only(c):
            continue
        if c.abstract_methods:
            # a base class carrying the layout: compare through its first concrete subclass
            subs = [s for s in model.all_subclasses(c) if not s.abstract_methods]
            if not subs:
                continue
            recv = subs[0]
        else:
            recv = c
        if 'vector' in entry:
            vector_bounds(ctx, report, R1, recv, entry)
            layout_entry = {'ref': entry['ref'], 'layout': [{'vector': entry['vector']}]}
        else:
            layout_entry = entry
        from .codecs import EVALUATED_CODECS
        codec = EVALUATED_CODECS[name](ctx) if name in EVALUATED_CODECS else None
        if codec is not None and not codec['evaluated']:
            report.undecided.append('%s: codec not evaluable (%s): layout comparison with its reviewed difference' % (name, codec['why']))
        for side in sides:
            if side in skip_sides.get(name, ()):
                continue
            report.count(R1)
            f = recv.resolve('_parse' if side == 'parse' else 'compose')
            report.touch(f)
            cm = compare_with_spec(recv, side, ctx.canon, table, layout_entry)
            if codec is not None and codec['evaluated'] and (cm.diffs or '%s/%s' % (name, side) in reviewed):
                # the layout differs in shape from the table entry: decided against the wire format the entry describes by
                # evaluating the function itself (sa/codecs.py)
                report.count(R1, codec['runs'] // 2)
                if side in codec['problems']:
                    report.add(R1, '%s@%s/codec' % (c.construct, side), '%s side differs from %s: %s' % (
                        'parser' if side == 'parse' else 'composer', entry.get('ref', 'the specification'), codec['problems'][side]))
                else:
                    report.sample({'rule': R1, 'class': name, 'side': side, 'verdict': 'codec evaluated against the wire format'}, 40)
                continue
            for u in cm.unknown:
                if side == 'compose' and u.startswith('length link of ') and u.endswith('parser use not analysable') and \
                        not (name.startswith('SshRecord') and u.startswith('length link of u1:')):   # SSH padding_length: formula tabulated by C07.R2/R3
                    # the specification derives this field from the size of what follows it; the composer writes a value that is
                    # not derived from the size of the data it composes (a stored or cached number can drift from the body)
                    report.add(R1, '%s@compose/link[%s]' % (c.construct, u.split(':')[0][len('length link of '):]),
                               'composer side differs from %s: the length field is not computed from the size of the data written after it' % entry.get('ref', 'the specification'))
                    continue
                report.undecided.append('%s/%s: %s' % (name, side, u))
            keys = sorted(diff_key(d) for d in cm.diffs)
            rk = '%s/%s' % (name, side)
            if rk in reviewed:
                if keys != sorted(reviewed[rk]['expect']):
                    report.add(R1, '%s@%s/reviewed' % (c.construct, side), 'reviewed difference set changed: expected %s, derived %s' % (
                        sorted(reviewed[rk]['expect']), keys))
                else:
                    report.sample({'rule': R1, 'class': name, 'side': side, 'verdict': 'reviewed', 'reason': reviewed[rk]['reason']}, 40)
                continue
            attribute_names(ctx, report, R1, recv, c, side, cm)
            for d in cm.diffs:
                report.add(R1, '%s@%s/%s' % (c.construct, side, diff_key(d)),
                           '%s side differs from %s: %s' % ('parser' if side == 'parse' else 'composer', entry.get('ref', 'the specification'), d.detail))
            if not cm.diffs and side == 'parse':
                report.sample({'rule': R1, 'class': name, 'ref': entry.get('ref'), 'layout': [e.sig() for e in cm.spec.elements][:8], 'verdict': 'both sides agree' if True else ''}, 10)
    if R2 is None:
        return
    registries(ctx, report, R2, spec.get('registries', {}))
    enum_bindings(ctx, report, R2, modules)
    # coverage
    not_wire = spec.get('not_wire', {})
    for c in model.concrete_parsables():
        if c.module.name not in modules:
            continue
        report.count(R3)
        if c.name in seen or c.name in not_wire:
            continue
        if c.is_subclass_of('VariantParsableBase') or c.is_subclass_of('NByteEnumParsable'):
            continue
        # inherited layout specified at a base class
        if any(isinstance(b, ClassInfo) and b.name in table for b in c.mro[1:]):
            base = [b.name for b in c.mro[1:] if isinstance(b, ClassInfo) and b.name in table][0]
            if base_defines_layout(c, model.cls(base)):
                continue
        if only_a_base(model, c, table):
            continue        # a shared base of specified structures that nothing names on its own: its subclasses carry the layout
        report.add(R3, c.construct + '@unspecified', 'wire structure %s has no entry in sa/specs/%s' % (c.name, spec_file))


def attribute_names(ctx, report, rule, recv, c, side, cm):
    """spec items that name the attribute they carry ("attr"): the parser must bind that position to the attribute and
    the composer must read it there (detects two same-width fields swapped consistently on both sides)"""
    from .compare import compose_root, parse_bindings
    binds = None
    seen_outer = set()
    for a, b in cm.pairs:
        sp = b.extra.get('spec') if hasattr(b, 'extra') else None
        if (not sp or not sp.get('attr')) and hasattr(b, 'extra') and b.extra.get('outer_attr'):
            # an element of a structure the specification item (naming the attribute) was expanded into: the code element
            # must come from the expansion of the nested value that carries that attribute
            want = b.extra['outer_attr']
            outer = a.extra.get('expanded_from')
            while outer is not None and outer.extra.get('expanded_from') is not None:
                outer = outer.extra['expanded_from']
            if outer is None or (id(outer), want) in seen_outer:
                continue
            seen_outer.add((id(outer), want))
            report.count(rule)
            if side == 'compose':
                roots = {r[0] for r in compose_root(outer.val)} if outer.val is not None else set()
                roots.discard('*')
                if roots and want not in roots:
                    report.add(rule, '%s@compose/attr[%s]' % (c.construct, want),
                               'at the position of %s the composer writes attribute %s' % (want, sorted(roots)))
            elif outer.key is not None and outer.op is not None and getattr(outer.op, 'target', None) is not None:
                if binds is None:
                    binds = parse_bindings(ctx.canon.layout(recv, 'parse').result, recv, ctx.model)
                got = {x[0] for x in binds.get((id(outer.op.target), outer.key), [])}
                if got and want not in got:
                    report.add(rule, '%s@parse/attr[%s]' % (c.construct, want),
                               'the field the specification calls %s is parsed into attribute %s' % (want, sorted(got)))
            continue
        if not sp or not sp.get('attr'):
            continue
        want = sp['attr']
        report.count(rule)
        if side == 'parse':
            if a.key is None or a.op is None or getattr(a.op, 'target', None) is None:
                continue
            if binds is None:
                binds = parse_bindings(ctx.canon.layout(recv, 'parse').result, recv, ctx.model)
            got = {x[0] for x in binds.get((id(a.op.target), a.key), [])}
            if got and want not in got:
                report.add(rule, '%s@parse/attr[%s]' % (c.construct, want),
                           'the field the specification calls %s is parsed into attribute %s' % (want, sorted(got)))
            elif not got and sp.get('carried', True):
                report.add(rule, '%s@parse/dropped[%s]' % (c.construct, want),
                           'the field the specification calls %s is read and then dropped: it reaches no attribute of the parsed object, so the '
                           'encoded value is not recovered' % want)
        else:
            src = a.extra.get('val_base') if a.extra.get('expanded_from') is not None and a.extra.get('val_base') is not None else a.val
            roots = {r[0] for r in compose_root(src)} if src is not None else set()
            roots.discard('*')
            if roots and want not in roots:
                report.add(rule, '%s@compose/attr[%s]' % (c.construct, want),
                           'at the position of %s the composer writes attribute %s' % (want, sorted(roots)))
            elif not roots and sp.get('carried', True) and (src is None or is_const_like(src)):
                report.add(rule, '%s@compose/constant[%s]' % (c.construct, want),
                           'at the position of %s the composer writes a constant, not a value of the object' % want)


def only_a_base(model, c, table):
    """is the class nothing but a common base: it has subclasses, each of them has its own entry (or inherits one), and the name of
    the class occurs in the package only in base class lists and in ``super(Class, ...)``"""
    subs = [k for k in model.repo_classes() if k is not c and k.is_subclass_of(c.name)]
    if not subs or not all(any(isinstance(b, ClassInfo) and b.name in table for b in k.mro) or k.abstract_methods for k in subs):
        return False
    for m in model.repo_modules():
        allowed = set()
        for n in ast.walk(m.tree):
            if isinstance(n, ast.ClassDef):
                for b in n.bases:
                    for x in ast.walk(b):
                        allowed.add(id(x))
            if isinstance(n, ast.Call) and isinstance(n.func, ast.Name) and n.func.id == 'super':
                for a in n.args:
                    allowed.add(id(a))
        for n in ast.walk(m.tree):
            if isinstance(n, ast.Name) and n.id == c.name and id(n) not in allowed:
                return False
    return True


def is_const_like(v):
    from .values import ClassV, ObjV, is_const
    from .model import EnumMember
    if is_const(v) or isinstance(v, EnumMember):
        return True
    if isinstance(v, ObjV):
        return all(is_const_like(x) for x in v.attrs.values())
    return False


def base_defines_layout(c, base):
    p, q = c.resolve('_parse'), c.resolve('compose')
    return p is not None and q is not None and p.cls is not c and q.cls is not c


def vector_bounds(ctx, report, rule, c, entry):
    v = entry['vector']
    prm = ctx.interp.const_call(c, 'get_param')
    report.count(rule)
    if not isinstance(prm, ObjV):
        report.undecided.append('%s: get_param() not foldable' % c.name)
        return
    mn, mx, w = prm.attrs.get('min_byte_num'), prm.attrs.get('max_byte_num'), prm.attrs.get('item_num_size')
    ref = entry.get('ref', '')
    if mx != v['ceiling']:
        report.add(rule, c.construct + '@ceiling', 'vector ceiling is %s in the code, %s in %s' % (mx, v['ceiling'], ref))
    # bodies of fixed size items are multiples of the item size: floors are compared after rounding up to one
    fixed = None
    if 'u' in v['item']:
        fixed = v['item']['u']
    floor_spec, floor_code = v['floor'], mn
    if fixed and isinstance(mn, int):
        floor_spec = -(-v['floor'] // fixed) * fixed
        floor_code = -(-mn // fixed) * fixed
    if isinstance(mn, int) and floor_code > floor_spec:
        report.add(rule, c.construct + '@floor', 'vector floor is %s in the code but %s allows %s: a conformant encoding is rejected' % (mn, ref, v['floor']))
    if isinstance(mn, int) and floor_code < floor_spec:
        report.add(rule, c.construct + '@floor', 'vector floor is %s in the code but %s demands at least %s: an encoding the protocol forbids is accepted and can be composed' % (mn, ref, v['floor']))
    if isinstance(w, int) and w != prefix_width(v['ceiling']) and not entry.get('no_prefix'):
        report.add(rule, c.construct + '@prefix', 'length prefix is %s byte(s), the ceiling %s needs %s' % (w, v['ceiling'], prefix_width(v['ceiling'])))
    item = v['item']
    if 'u' in item:
        iw = prm.attrs.get('item_size')
        if iw is None:
            ic = prm.attrs.get('item_class')
            if isinstance(ic, ClassV) and isinstance(ic.cls, ClassInfo) and ic.cls.resolve('get_byte_num'):
                iw = ctx.interp.const_call(ic.cls, 'get_byte_num')
        if isinstance(iw, int) and iw != item['u']:
            report.add(rule, c.construct + '@item', 'vector items are %s byte(s) in the code, %s in %s' % (iw, item['u'], ref))
    report.sample({'rule': rule, 'vector': c.name, 'code': [mn, mx, w], 'spec': [v['floor'], v['ceiling'], prefix_width(v['ceiling'])], 'ref': ref}, 6)


def registries(ctx, report, rule, regs):
    model, it = ctx.model, ctx.interp
    for ename, reg in regs.items():
        c = model.try_cls(ename)
        if c is None or c.enum_members is None:
            report.error('%s: enum %s vanished' % (rule, ename))
            continue
        for mname, want in reg['values'].items():
            report.count(rule)
            if mname not in c.enum_members:
                report.add(rule, '%s@member[%s]' % (enum_where(c), mname), 'member %s (%s = %s) is missing' % (mname, reg.get('ref', ''), want))
                continue
            val = it.enum_value(EnumMember(c, mname))
            if isinstance(val, ParamsValue):
                val = val.get('code')
            elif isinstance(val, ObjV):
                val = val.attrs.get('code', (val.ctor_args or {}).get('code'))
            if val != want:
                report.add(rule, '%s@member[%s]' % (enum_where(c), mname), '%s.%s is %s, %s says %s' % (ename, mname, show(val), reg.get('ref', 'the registry'), want))
        report.sample({'rule': rule, 'registry': ename, 'members_checked': len(reg['values']), 'ref': reg.get('ref')}, 30)


def enum_where(c):
    return ('cryptodatahub:' + c.name) if c.external else c.construct


def enum_bindings(ctx, report, rule, modules):
    """the registry a wire field is decoded through (converter of parse_numeric / flags class / item class of a name-list)
    is the one sa/specs/enums.json names for that field; only a *different* registry at the same field is reported"""
    import json
    import os
    from .trace import Op, walk
    with open(os.path.join(os.path.dirname(os.path.abspath(__file__)), 'specs', 'enums.json')) as fh:
        table = json.load(fh)['bindings']
    model = ctx.model
    for cname, fields in table.items():
        base = model.try_cls(cname)
        if base is None:
            report.error('%s: class %s of the registry binding table vanished' % (rule, cname))
            continue
        if base.module.name not in modules:
            continue
        targets = [k for k in [base] + list(model.all_subclasses(base)) if not k.abstract_methods]
        for c in targets:
            f = c.resolve('_parse')
            if f is None:
                continue
            try:
                res = ctx.canon.layout(c, 'parse').result
            except Exception:      # pylint: disable=broad-except
                continue
            for n in walk(res.block):
                if not (isinstance(n, Op) and n.side == 'parse'):
                    continue
                key = n.args.get('name')
                if key not in fields:
                    continue
                got = None
                for k in ('converter', 'flags_class', 'item_class', 'parsable_class'):
                    v = n.args.get(k)
                    if isinstance(v, ClassV) and getattr(v.cls, 'enum_members', None) is not None:
                        got = v.cls.name
                if got is None:
                    continue
                report.count(rule)
                if got != fields[key]:
                    report.add(rule, '%s@binding[%s]' % (c.construct, key),
                               'field %s is decoded through registry %s, the specification interprets it in %s' % (key, got, fields[key]))
