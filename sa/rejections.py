"""Explicit content-dependent rejections (raise InvalidValue / InvalidType outside exception handlers) of the binary
parsers, compared with the table sa/specs/rejections.json.  Every entry of the table was confirmed against the
specification (tag / version / length checks the protocol prescribes); a parser that starts to reject on a condition the
table does not list refuses - or, through the variant and fallback machinery, silently re-interprets - encodings the
protocol allows.  Keys are (function, exception, parsed fields the condition reads), not source text."""
from __future__ import annotations

import ast
import json
import os

SCOPES = {
    'tls': ('cryptoparser/tls/extension.py', 'cryptoparser/tls/record.py', 'cryptoparser/tls/subprotocol.py', 'cryptoparser/tls/ciphersuite.py',
            'cryptoparser/tls/version.py', 'cryptoparser/tls/grease.py', 'cryptoparser/common/x509.py'),
    'ssh': ('cryptoparser/ssh/',),
    'dns': ('cryptoparser/dnsrec/record.py',),
    'opp': ('cryptoparser/tls/mysql.py', 'cryptoparser/tls/rdp.py', 'cryptoparser/tls/ldap.py', 'cryptoparser/tls/openvpn.py', 'cryptoparser/tls/postgresql.py'),
}


def rejections(model, scope):
    out = {}
    in_scope = [f for f in model.functions() if not f.module.external and f.module.relpath.startswith(SCOPES[scope])]
    # the parse functions, and the helper methods they (transitively) call through cls / self whatever their name
    selected = {id(f): f for f in in_scope if f.name.lstrip('_').startswith('parse')}
    work = list(selected.values())
    while work:
        g = work.pop()
        if g.cls is None:
            continue
        for n in ast.walk(g.node):
            if isinstance(n, ast.Call) and isinstance(n.func, ast.Attribute) and isinstance(n.func.value, ast.Name) and n.func.value.id in ('cls', 'self'):
                h = g.cls.resolve(n.func.attr)
                if h is not None and not h.module.external and id(h) not in selected and h.module.relpath.startswith(SCOPES[scope]) and \
                        not h.name.startswith('compose') and not h.name.startswith('_compose') and h.name not in ('__init__', '__attrs_post_init__'):
                    selected[id(h)] = h
                    work.append(h)
    # validators of attrs fields (``@field.validator``) run on every object the parser constructs: what they refuse, the parser refuses
    validators = {}
    for f in in_scope:
        for d in f.node.decorator_list:
            if isinstance(d, ast.Attribute) and d.attr == 'validator' and isinstance(d.value, ast.Name) and f.cls is not None:
                validators[id(f)] = d.value.id
                selected[id(f)] = f
    for f in in_scope:
        if id(f) not in selected:
            continue
        parents = {}
        for n in ast.walk(f.node):
            for ch in ast.iter_child_nodes(n):
                parents[id(ch)] = n
        for n in ast.walk(f.node):
            exc = None
            if isinstance(n, ast.Raise) and n.exc is not None:
                exc = ast.unparse(n.exc).split('(')[0]
            elif isinstance(n, ast.Call) and ast.unparse(n.func).endswith('raise_from') and n.args:
                exc = ast.unparse(n.args[0]).split('(')[0]
            if exc not in ('InvalidValue', 'InvalidType'):
                continue
            cond, p, handler = None, n, False
            while id(p) in parents:
                q = parents[id(p)]
                if isinstance(q, ast.If) and cond is None:
                    cond = q.test
                if isinstance(q, ast.ExceptHandler):
                    handler = True
                if cond is None and not isinstance(q, ast.If):
                    # no enclosing test: ``if ok: return`` (or continue / break) in front of the raise in the same block is one
                    for field in ('body', 'orelse', 'finalbody'):
                        block = getattr(q, field, None)
                        if isinstance(block, list) and any(b is p for b in block):
                            idx = [i for i, b in enumerate(block) if b is p][0]
                            for b in reversed(block[:idx]):
                                if isinstance(b, ast.If) and not b.orelse and b.body and isinstance(b.body[-1], (ast.Return, ast.Continue, ast.Break)):
                                    cond = b.test
                                    break
                p = q
            if handler:
                continue
            if id(f) in validators:
                out.setdefault(owner_construct(f), []).append(('%s[@%s]' % (exc, validators[id(f)]), n))
                continue
            # a checking helper (``cls._check(parser, 'field', parser['field'] == K)`` with ``if not is_valid: raise``): the condition
            # is what each call hands in - one rejection per call site, keyed by what that call's argument reads
            if cond is not None and f.cls is not None:
                params = [a.arg for a in f.node.args.args]
                names = {x.id for x in ast.walk(cond) if isinstance(x, ast.Name)}
                own = [p_ for p_ in params if p_ in names and p_ not in ('self', 'cls')]
                assigned = {t.id for d in ast.walk(f.node) if isinstance(d, ast.Assign) for t in d.targets if isinstance(t, ast.Name)}
                if own and not (names - set(params)) and not (set(own) & assigned):
                    sites = []
                    for g in f.cls.methods.values():
                        if g is f:
                            continue
                        for c_ in ast.walk(g.node):
                            if isinstance(c_, ast.Call) and isinstance(c_.func, ast.Attribute) and c_.func.attr == f.name and \
                                    isinstance(c_.func.value, ast.Name) and c_.func.value.id in ('cls', 'self', f.cls.name):
                                sites.append((g, c_))
                    if len(sites) >= 2:
                        offset = 1 if params and params[0] in ('self', 'cls') else 0
                        for g, c_ in sites:
                            keys = set()
                            for p_ in own:
                                pos = params.index(p_) - offset
                                arg = c_.args[pos] if 0 <= pos < len(c_.args) else next((k.value for k in c_.keywords if k.arg == p_), None)
                                if arg is not None:
                                    keys |= fields_read(arg, g)
                            out.setdefault(owner_construct(f), []).append(('%s[%s]' % (exc, ','.join(sorted(keys))), n))
                        continue
            binds = loop_bindings(model, f, n, parents) if cond is not None else [None]
            for bind in binds:
                keys = fields_read(cond, f, bind) if cond is not None else set()
                out.setdefault(owner_construct(f), []).append(('%s[%s]' % (exc, ','.join(sorted(keys))), n))
    return out


def loop_bindings(model, f, node, parents):
    """the raise sits in a ``for`` over a table of the class (``for field_name, expected in cls._get_fields():``): one binding of
    the loop variables to the constants of each row, so that ``parser[field_name]`` is a key per row; [None] when there is no
    such loop or the table cannot be evaluated"""
    loops = []
    p = node
    while id(p) in parents:
        p = parents[id(p)]
        if isinstance(p, ast.For):
            loops.append(p)
    if not loops or f.cls is None:
        return [None]
    loop = loops[0]
    try:
        from .miniexec import Evaluator, Raised, Unsupported, class_call_hook
        h = class_call_hook(f.cls, None, model)
        rows = list(Evaluator({'cls': 'cls', 'self': 'self'}, h, h.name_hook_for(f.module, None)).ev(loop.iter))
    except Exception:      # pylint: disable=broad-except
        return [None]
    names = [loop.target.id] if isinstance(loop.target, ast.Name) else \
        [t.id if isinstance(t, ast.Name) else None for t in loop.target.elts] if isinstance(loop.target, (ast.Tuple, ast.List)) else []
    out = []
    for row in rows[:64]:
        vals = [row] if isinstance(loop.target, ast.Name) else list(row) if isinstance(row, (tuple, list)) else []
        bind = {n: v for n, v in zip(names, vals) if n is not None and isinstance(v, str)}
        if bind:
            out.append(bind)
    return out or [None]



def fields_read(expr, f, bind=None, depth=0):
    """the parser keys (``parser['key']``) an expression of function ``f`` reads: directly, through locals assigned from
    them (also as one component of a tuple valued expression), through collections filled in a loop bounded by them, and
    through the values helper methods of the class return"""
    keys = set()
    seen, todo = set(), [expr]
    while todo:
        e = todo.pop()
        if isinstance(e, tuple):
            # ('component', expression, i): the i-th component of a pair / tuple valued expression
            _, whole, i = e
            if isinstance(whole, ast.Tuple) and i < len(whole.elts):
                todo.append(whole.elts[i])
                continue
            if isinstance(whole, ast.Call) and isinstance(whole.func, ast.Attribute) and isinstance(whole.func.value, ast.Name) and \
                    whole.func.value.id in ('cls', 'self') and f.cls is not None:
                h = f.cls.resolve(whole.func.attr)
                if h is not None and not h.module.external and ('call', whole.func.attr, i) not in seen:
                    seen.add(('call', whole.func.attr, i))
                    from .astutil import returned
                    for r in returned(h.node):
                        if isinstance(r, ast.Tuple):
                            todo.append(('component', r, i))
                        else:
                            keys |= fields_read(r, h)
                    # tuple components are expressions of the helper: its own locals are resolved there
                    sub = set()
                    for r in returned(h.node):
                        if isinstance(r, ast.Tuple) and i < len(r.elts):
                            sub |= fields_read(r.elts[i], h)
                    keys |= sub
                    todo.extend(a for a in whole.args)
                    continue
            e = whole
        subscripted = {id(x.value) for x in ast.walk(e) if isinstance(x, ast.Subscript) and isinstance(x.value, ast.Name)}
        for x in ast.walk(e):
            if id(x) in subscripted:
                continue        # the parser object of ``parser['key']``: the key says what is read, not where the parser came from
            if isinstance(x, ast.Subscript) and isinstance(x.slice, ast.Constant) and isinstance(x.slice.value, str):
                keys.add(x.slice.value)
            elif isinstance(x, ast.Subscript) and isinstance(x.slice, ast.Name) and bind and x.slice.id in bind:
                keys.add(bind[x.slice.id])          # parser[field_name] inside a loop over a table of field names
            elif isinstance(x, ast.Name) and x.id not in seen:
                seen.add(x.id)
                params = [a.arg for a in f.node.args.args]
                if x.id in params and x.id not in ('self', 'cls') and f.cls is not None and depth < 3:
                    # a parameter of a helper: what the callers of the class hand in at that position
                    pos = params.index(x.id) - (1 if params and params[0] in ('self', 'cls') else 0)
                    chain = [k for k in getattr(f.cls, 'mro', [f.cls]) if hasattr(k, 'methods')]
                    for g in [m for k in chain for m in k.methods.values()]:
                        if g is f:
                            continue
                        for c in ast.walk(g.node):
                            if isinstance(c, ast.Call) and isinstance(c.func, ast.Attribute) and c.func.attr == f.name and \
                                    isinstance(c.func.value, ast.Name) and c.func.value.id in ('cls', 'self'):
                                arg = c.args[pos] if 0 <= pos < len(c.args) else next((k.value for k in c.keywords if k.arg == x.id), None)
                                if arg is not None:
                                    keys |= fields_read(arg, g, None, depth + 1)
                for d in ast.walk(f.node):
                    if isinstance(d, ast.Assign) and len(d.targets) == 1 and isinstance(d.targets[0], ast.Name) and d.targets[0].id == x.id:
                        todo.append(d.value)
                    elif isinstance(d, ast.Assign) and len(d.targets) == 1 and isinstance(d.targets[0], (ast.Tuple, ast.List)) and \
                            any(isinstance(t, ast.Name) and t.id == x.id for t in d.targets[0].elts):
                        idx = [i for i, t in enumerate(d.targets[0].elts) if isinstance(t, ast.Name) and t.id == x.id][0]
                        todo.append(('component', d.value, idx))        # ``q, r = divmod(parser['x'], 16)``, ``a, b = cls.helper(p)``
                    elif isinstance(d, (ast.For, ast.While)) and any(
                            isinstance(c, ast.Call) and isinstance(c.func, ast.Attribute) and c.func.attr in ('append', 'extend', 'insert', 'add')
                            and isinstance(c.func.value, ast.Name) and c.func.value.id == x.id for c in ast.walk(d)):
                        # a collection filled in a loop: how much it holds is decided by what bounds the loop
                        todo.append(d.iter if isinstance(d, ast.For) else d.test)
            elif isinstance(x, ast.Call) and (
                    (isinstance(x.func, ast.Attribute) and isinstance(x.func.value, ast.Name) and x.func.value.id in ('cls', 'self')
                     and f.cls is not None and ('call', x.func.attr) not in seen) or
                    (isinstance(x.func, ast.Name) and f.module.bindings.get(x.func.id, (None,))[0] == 'func' and ('call', x.func.id) not in seen)):
                # the value comes from a helper method of the class or a helper function of the module: what the helper returns
                if isinstance(x.func, ast.Name):
                    seen.add(('call', x.func.id))
                    seen.add(x.func.id)
                    h = f.module.bindings[x.func.id][1]
                else:
                    seen.add(('call', x.func.attr))
                    h = f.cls.resolve(x.func.attr)
                if h is not None and not h.module.external:
                    from .astutil import returned
                    # ``cls._pop_numeric(parser, 'field', 1)``: the helper reads ``parser[name]`` with the name the call spells out
                    hparams = [a.arg for a in h.node.args.args]
                    if hparams and hparams[0] in ('self', 'cls') and isinstance(x.func, ast.Attribute) and not any(
                            isinstance(d, ast.Name) and d.id == 'staticmethod' for d in h.node.decorator_list):
                        hparams = hparams[1:]
                    hbind = {}
                    for name, a in list(zip(hparams, x.args)) + [(k.arg, k.value) for k in x.keywords if k.arg]:
                        if isinstance(a, ast.Constant) and isinstance(a.value, str):
                            hbind[name] = a.value
                        elif isinstance(a, ast.Name) and bind and a.id in bind:
                            hbind[name] = bind[a.id]
                    for r in returned(h.node):
                        keys |= fields_read(r, h, hbind or None)
    return keys

def owner_construct(f):
    """rejections are tabulated per class (``path:Class``), so that moving a check into a helper method of the same class does
    not change its key; module level functions keep their own name"""
    if f.cls is not None:
        return '%s:%s' % (f.module.relpath, f.cls.name)
    return f.construct


def check(ctx, report, rule, scope, only=None, title=None, skip=None):
    path = os.path.join(os.path.dirname(os.path.abspath(__file__)), 'specs', 'rejections.json')
    with open(path) as fh:
        table = json.load(fh)['rejections'].get(scope, {})
    report.rule(rule, title or 'explicit rejections in the parsers are the ones the specification prescribes (table of tag / version / length checks)')
    found = rejections(ctx.model, scope)
    n = 0
    for construct, items in sorted(found.items()):
        if only is not None and not construct.startswith(only):
            continue
        if skip is not None and skip(construct):
            n += len(items)
            continue
        allowed = list(table.get(construct, []))
        for key, node in items:
            n += 1
            report.count(rule)
            if key in allowed:
                allowed.remove(key)
                continue
            report.add(rule, '%s@rejects[%s]' % (construct, key),
                       'the parser rejects input on a condition (%s) that the reviewed table of specification checks does not list: encodings the '
                       'protocol allows are refused or, through the fallback machinery, silently re-interpreted' % key)
    if n == 0 and table:
        report.error('%s: no explicit rejection found in scope %s (anchor moved)' % (rule, scope))


def draft(model):
    out = {}
    for scope in SCOPES:
        out[scope] = {k: [x[0] for x in v] for k, v in sorted(rejections(model, scope).items())}
    return out
