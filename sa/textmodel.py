"""A model of the text parser primitives (ParserText) for tabulating small text ``_parse`` functions with sa.miniexec.

Only the primitives' *documented* behaviour on ASCII input is modelled (what each consumes and stores); their own
implementation in /repo is the subject of other rules (C18.R2 whitespace runs, C19.R3 rescans, C02 escapes).  Errors are
signalled with NativeError subclasses named like the repository's exceptions, so the evaluated handlers match them."""
from __future__ import annotations

from .miniexec import Native, NativeError, Raised


class InvalidValue(NativeError):
    pass


class InvalidType(NativeError):
    pass


class NotEnoughData(NativeError):
    pass


class TextParser(Native):
    def __init__(self, data, encoding='ascii'):
        self.data = bytes(data)
        self.pos = 0
        self.values = {}
        self.encoding = encoding

    # mapping protocol
    def __getitem__(self, k):
        return self.values[k]

    def get(self, k, default=None):
        return self.values.get(k, default)

    @property
    def unparsed_length(self):
        return len(self.data) - self.pos

    @property
    def parsed_length(self):
        return self.pos

    @property
    def unparsed(self):
        return self.data[self.pos:]

    def _text(self, b):
        return b.decode(self.encoding)

    def parse_string_by_length(self, name, min_length=1, max_length=None, item_class=str):
        end = len(self.data) if max_length is None else min(len(self.data), self.pos + max_length)
        chunk = self.data[self.pos:end]
        if len(self.data) - self.pos < min_length:
            raise NotEnoughData(name)       # as ParserBase._parse_string_by_length: fewer characters left than the minimum
        try:
            self.values[name] = item_class(self._text(chunk))
        except ValueError as e:             # ... which turns the converter's ValueError / UnicodeError into InvalidValue
            raise InvalidValue(name) from e
        except Raised as e:                 # the same, raised inside a converter that is itself evaluated
            if 'ValueError' in (getattr(e.value, 'bases', None) or ()) or e.what.split('(')[0] in ('ValueError', 'UnicodeError', 'UnicodeDecodeError'):
                raise InvalidValue(name) from e
            raise
        self.pos = end

    def _until(self, name, separators, may_end, item_class):
        seps = [separators] if isinstance(separators, str) else list(separators)
        best = None
        for i in range(self.pos, len(self.data) + 1):
            for sep in seps:
                sb = sep.encode(self.encoding)
                if self.data[self.pos:i].endswith(sb) and sb:
                    best = i - len(sb)
                    break
            if best is not None:
                break
        if best is None:
            if not may_end:
                raise InvalidValue(name)
            best = len(self.data)
        self.values[name] = item_class(self._text(self.data[self.pos:best]))
        self.pos = best

    def parse_string_until_separator(self, name, separators, item_class=str, fallback_class=None):
        self._until(name, separators, False, item_class)

    def parse_string_until_separator_or_end(self, name, separators, item_class=str, fallback_class=None):
        self._until(name, separators, True, item_class)

    def parse_separator(self, separator, min_length=1, max_length=None):
        sb = separator.encode(self.encoding)
        # as ParserText._check_separators: the whole run is counted; a run longer than max_length is an error, not a stop
        n = 0
        while any(self.data[self.pos + n:self.pos + n + 1] == bytes([c]) for c in sb):
            n += 1
            if max_length is not None and n > max_length:
                raise InvalidValue('separator')
        if min_length is not None and n < min_length:
            raise InvalidValue('separator')
        self.pos += n

    def parse_string(self, name, value):
        # as ParserText.parse_string: exactly len(value) characters, compared as they are (case matters), the expected text is stored
        vb = value.encode(self.encoding)
        if self.data[self.pos:self.pos + len(vb)] != vb:
            raise InvalidValue(name)
        self.values[name] = value
        self.pos += len(vb)
