"""Expression evaluation half of the DSL abstract interpreter (see interp.py)."""
from __future__ import annotations

import ast
import math
import operator

from .model import (AnalysisError, ClassInfo, EnumMember, ExtRef, FuncInfo, ModuleRef, ParamsValue, VarRef,
                    dotted)
from .values import (AttrFieldV, BytesV, ClassV, ComposerV, DictV, FieldV, FuncV, InputV, LambdaV, ListV, ModuleV,
                     ObjV, ParserV, SelfV, Sym, Unknown, ValidatorV, is_const, show)

BINOPS = {
    ast.Add: ('add', operator.add), ast.Sub: ('sub', operator.sub), ast.Mult: ('mul', operator.mul),
    ast.FloorDiv: ('floordiv', operator.floordiv), ast.Div: ('div', operator.truediv),
    ast.Mod: ('mod', operator.mod), ast.Pow: ('pow', operator.pow), ast.BitAnd: ('and', operator.and_),
    ast.BitOr: ('or', operator.or_), ast.BitXor: ('xor', operator.xor), ast.LShift: ('lshift', operator.lshift),
    ast.RShift: ('rshift', operator.rshift),
}
CMPOPS = {
    ast.Eq: ('==', operator.eq), ast.NotEq: ('!=', operator.ne), ast.Lt: ('<', operator.lt),
    ast.LtE: ('<=', operator.le), ast.Gt: ('>', operator.gt), ast.GtE: ('>=', operator.ge),
    ast.Is: ('is', operator.is_), ast.IsNot: ('is not', operator.is_not),
    ast.In: ('in', lambda a, b: a in b), ast.NotIn: ('not in', lambda a, b: a not in b),
}



# attributes of a DER-built library object that do not decode anything: the stored bytes and their length
EAGER_ATTRIBUTES = {'der', 'dump', 'contents', 'native'}
LAZY_CONSTRUCTORS = ('from_der', 'load')


def parser_alternatives(v):
    return isinstance(v, Sym) and v.op == 'phi' and len(v.args) > 1 and all(isinstance(a, ParserV) for a in v.args)


def lazily_decoded(v):
    """is ``v`` the object a DER decoder of the dependency returned (directly, or as the converted value of a parsed field)?"""
    def decoder(f):
        t = show(f)
        return any(t.endswith('.' + n) or t.endswith('.' + n + ')') or (' ' + n) in t and t.endswith(n) for n in LAZY_CONSTRUCTORS) and 'asn1' not in t.lower() or \
            any(t.endswith('.' + n) for n in LAZY_CONSTRUCTORS)
    if isinstance(v, FieldV) and v.op is not None:
        for a in ('converter', 'item_class'):
            c = v.op.args.get(a)
            if c is not None and decoder(c):
                return True
        return False
    if isinstance(v, Sym) and v.op == 'call' and v.args:
        return decoder(v.args[0])
    if isinstance(v, Sym) and v.op == 'index' and isinstance(v.args[1], str):
        # parser[key] where the parser is one of several (phi): the field of any of them
        base = v.args[0]
        parsers = [base] if isinstance(base, ParserV) else [a for a in base.args if isinstance(a, ParserV)] if isinstance(base, Sym) and base.op == 'phi' else []
        return any(lazily_decoded(p.keys.get(v.args[1])) for p in parsers)
    if isinstance(v, Sym) and v.op == 'phi':
        return any(lazily_decoded(a) for a in v.args)
    return False

class SuperV:
    def __init__(self, after, recv):
        self.after = after      # ClassInfo after which the MRO search starts
        self.recv = recv        # receiver value (ClassV / SelfV / ObjV)

    def __repr__(self):
        return 'super(%s)' % self.after.name


def truth(v):
    """Three valued truth of an abstract value: True / False / None (unknown)."""
    if is_const(v):
        return bool(v)
    if isinstance(v, ListV):
        if v.items and (v.complete or any(not (isinstance(x, Sym) and x.op in ('repeat', 'splat', 'comp')) for x in v.items)):
            return True
        if v.items:
            return None
        return False if v.complete else None
    if isinstance(v, DictV):
        if v.pairs:
            return True
        return False if (v.complete and not v.star) else None
    if isinstance(v, (ClassV, FuncV, ObjV, EnumMember, ParserV, ComposerV, ValidatorV, AttrFieldV, ParamsValue, LambdaV)):
        if isinstance(v, ObjV) and v.cls.resolve('__len__') is not None:
            return None
        if isinstance(v, EnumMember) and v.cls.is_int_enum:
            return None
        return True
    return None


def as_bytes_parts(v):
    if isinstance(v, BytesV):
        return list(v.parts)
    if isinstance(v, (bytes,)) and v == b'':
        return []
    return [('raw', v)]


class ExprMixin:
    # -- names ---------------------------------------------------------------------
    def sym_to_value(self, r):
        if r is None:
            return Unknown('unresolved name')
        if isinstance(r, ClassInfo):
            return ClassV(r)
        if isinstance(r, FuncInfo):
            return FuncV(r)
        if isinstance(r, EnumMember):
            return r
        if isinstance(r, ModuleRef):
            return ModuleV(r.name)
        if isinstance(r, ExtRef):
            return ClassV(r)
        if isinstance(r, VarRef):
            return self.eval_var(r)
        return Unknown('symbol %r' % (r,))

    def eval_var(self, var):
        key = (var.module.name, getattr(var.cls, 'name', None), var.name)
        if key in self._var_memo:
            return self._var_memo[key]
        if key in self._var_stack:
            return Unknown('recursive variable %s' % var.name)
        self._var_stack.add(key)
        try:
            v = self.module_constant_by_evaluation(var)
            if v is None:
                fr = self.new_frame(None, var.module, recv=ClassV(var.cls) if var.cls else None, defcls=var.cls)
                fr.quiet = True
                v = self.eval(var.node, fr)
        finally:
            self._var_stack.discard(key)
        self._var_memo[key] = v
        self.mark_shared(v, '%s%s' % ((var.cls.name + '.') if var.cls is not None else (var.module.relpath + ':'), var.name))
        return v

    def mark_shared(self, v, where, depth=0):
        """containers that live in a class / module level variable carry the name of that variable (C13.R5 reports them when they
        become part of a parsed object without a copy)"""
        if depth > 3:
            return
        if isinstance(v, (ListV, DictV)):
            try:
                v.shared_from = where
            except AttributeError:
                pass
        if isinstance(v, tuple):
            for x in v:
                self.mark_shared(x, where, depth + 1)
        elif isinstance(v, ListV):
            for x in v.items:
                self.mark_shared(x, where, depth + 1)

    def module_constant_by_evaluation(self, var):
        """a module level constant bound to the result of a call of a module level function of the repository without
        arguments that depend on anything but other constants (``_TABLE = _build_table()``): the function is evaluated from its
        own statements (sa.miniexec - no input is involved, so this is constant folding) and the resulting numbers, strings,
        tuples, lists and dictionaries become the constant's value.  None when the definition is not of that form or the
        function leaves the evaluable subset"""
        node = var.node
        if var.cls is not None or not (isinstance(node, ast.Call) and isinstance(node.func, ast.Name)):
            return None
        callee = self.model.resolve_name(var.module, node.func.id)
        if not (isinstance(callee, FuncInfo) and callee.cls is None and not callee.module.external):
            return None
        from .miniexec import Evaluator, Raised, Unsupported, class_call_hook

        class _ModuleScope:
            # the part of a ClassInfo the hook needs: helper functions and constants are looked up in the module
            name, module, mro = '<module>', var.module, []

            @staticmethod
            def resolve(_name):
                return None

            @staticmethod
            def resolve_var(_name):
                return None
        try:
            hook = class_call_hook(_ModuleScope, None, self.model)
            val = Evaluator({}, hook, None).ev(node)
        except (Unsupported, Raised, Exception):      # pylint: disable=broad-except
            return None

        def conv(x, depth=0):
            if depth > 6:
                raise ValueError
            if x is None or isinstance(x, (bool, int, str, bytes, float)):
                return x
            if isinstance(x, tuple):
                return tuple(conv(i, depth + 1) for i in x)
            if isinstance(x, list):
                return ListV([conv(i, depth + 1) for i in x], True)
            if isinstance(x, dict):
                return DictV([(conv(k, depth + 1), conv(v, depth + 1)) for k, v in x.items()], True)
            raise ValueError
        try:
            return conv(val)
        except ValueError:
            return None

    def lookup_name(self, name, fr):
        if name in fr.env:
            return fr.env[name]
        if fr.func is None and fr.defcls is not None:
            # the body of a class statement (a class level constant defined from an earlier one): names of that class body first
            v = fr.defcls.class_vars.get(name) if hasattr(fr.defcls, 'class_vars') else None
            if v is not None:
                from .model import VarRef
                ref = fr.defcls.resolve_var(name)
                if ref is not None:
                    return self.eval_var(ref)
        r = self.model.resolve_name(fr.module, name)
        if r is None:
            return Unknown('name %s' % name)
        return self.sym_to_value(r)

    # -- expression dispatcher -----------------------------------------------------------
    def eval(self, node, fr):
        m = getattr(self, 'e_' + type(node).__name__, None)
        if m is None:
            return Unknown('expr %s' % type(node).__name__)
        return m(node, fr)

    def e_Constant(self, node, fr):
        return node.value

    def e_Name(self, node, fr):
        return self.lookup_name(node.id, fr)

    def e_Tuple(self, node, fr):
        return tuple(self.eval(e, fr) for e in node.elts)

    def e_List(self, node, fr):
        return ListV([self.eval(e, fr) for e in node.elts])

    def e_Set(self, node, fr):
        return Sym('set', *[self.eval(e, fr) for e in node.elts])

    def e_Dict(self, node, fr):
        d = DictV()
        for k, v in zip(node.keys, node.values):
            if k is None:
                d.star.append(self.eval(v, fr))
            else:
                d.pairs.append((self.eval(k, fr), self.eval(v, fr)))
        return d

    def e_JoinedStr(self, node, fr):
        return Sym('fstring', *[self.eval(v.value, fr) if isinstance(v, ast.FormattedValue) else v.value
                                for v in node.values])

    def e_Lambda(self, node, fr):
        return LambdaV(node, dict(fr.env), fr.module)

    def e_IfExp(self, node, fr):
        c = self.eval(node.test, fr)
        t = truth(c)
        if t is True:
            return self.eval(node.body, fr)
        if t is False:
            return self.eval(node.orelse, fr)
        fr.cond_depth += 1
        try:
            return Sym('ifexp', c, self.eval(node.body, fr), self.eval(node.orelse, fr))
        finally:
            fr.cond_depth -= 1

    def e_UnaryOp(self, node, fr):
        v = self.eval(node.operand, fr)
        if isinstance(node.op, ast.Not):
            t = truth(v)
            return (not t) if t is not None else Sym('not', v)
        if is_const(v) and isinstance(v, (int, float)):
            if isinstance(node.op, ast.USub):
                return -v
            if isinstance(node.op, ast.UAdd):
                return +v
            if isinstance(node.op, ast.Invert) and isinstance(v, int):
                return ~v
        return Sym({ast.USub: 'neg', ast.UAdd: 'pos', ast.Invert: 'invert'}[type(node.op)], v)

    def e_BoolOp(self, node, fr):
        vals = []
        is_and = isinstance(node.op, ast.And)
        added = []
        try:
            return self._boolop(node, fr, vals, is_and, added)
        finally:
            for k in added:
                if k is None:
                    fr.cond_depth -= 1
                else:
                    fr.nonempty.discard(k)

    def _boolop(self, node, fr, vals, is_and, added):
        for i, e in enumerate(node.values):
            if i == 1:
                fr.cond_depth += 1
                added.append(None)
            v = self.eval(e, fr)
            t = truth(v)
            if is_and and t is None:
                k = show(v)
                if k not in fr.nonempty:
                    fr.nonempty.add(k)
                    added.append(k)
                before = set(fr.nonempty)
                self.assume(v, True, fr)        # later operands are evaluated under this one (length bounds, non-emptiness)
                added.extend(fr.nonempty - before)
            if is_and and t is False:
                return v if not vals else (Sym('booland', *(vals + [v])) if vals else v)
            if not is_and and t is True:
                return v if not vals else Sym('boolor', *(vals + [v]))
            if t is None:
                vals.append(v)
            else:
                last = v
        if not vals:
            return last
        if len(vals) == 1:
            return vals[0]
        return Sym('booland' if is_and else 'boolor', *vals)

    def binop(self, opnode, a, b):
        name, fn = BINOPS[type(opnode)]
        if name == 'add' and (isinstance(a, BytesV) or isinstance(b, BytesV)):
            return BytesV(as_bytes_parts(a) + as_bytes_parts(b))
        if name == 'add' and isinstance(a, ListV) and isinstance(b, ListV):
            return ListV(a.items + b.items, a.complete and b.complete)
        if name == 'add' and isinstance(a, tuple) and isinstance(b, tuple):
            return a + b
        if name == 'add' and ((isinstance(a, tuple) and isinstance(b, ListV)) or (isinstance(a, ListV) and isinstance(b, tuple))):
            # ``(x, ) + tuple(f(y) for y in ys)``: tuple() of a comprehension is kept as a list value
            left, right = (list(a), b.items) if isinstance(a, tuple) else (a.items, list(b))
            whole = (b if isinstance(b, ListV) else a).complete
            return tuple(left + right) if whole else ListV(left + right, False)
        if name == 'add' and isinstance(a, ListV) and isinstance(b, (Sym, SelfV, Unknown, FieldV)):
            return ListV(a.items + [Sym('splat', b)], False)
        if is_const(a) and is_const(b) and a is not None and b is not None:
            try:
                if name == 'pow' and isinstance(b, int) and (b > 4096 or b < 0):
                    raise ValueError
                if name == 'lshift' and isinstance(b, int) and b > 4096:
                    raise ValueError
                if name == 'mul' and isinstance(a, (bytes, str)) and isinstance(b, int) and b > 65536:
                    raise ValueError
                if name == 'mul' and isinstance(b, (bytes, str)) and isinstance(a, int) and a > 65536:
                    raise ValueError
                return fn(a, b)
            except Exception:      # pylint: disable=broad-except
                return Sym(name, a, b)
        if isinstance(a, EnumMember) and a.cls.is_int_enum and name in ('lshift', 'rshift', 'and', 'or'):
            av = self.enum_value(a)
            if is_const(av) and is_const(b):
                return fn(av, b)
        return Sym(name, a, b)

    def e_BinOp(self, node, fr):
        return self.binop(node.op, self.eval(node.left, fr), self.eval(node.right, fr))

    def compare(self, opnode, a, b):
        name, fn = CMPOPS[type(opnode)]
        if is_const(a) and is_const(b):
            try:
                return bool(fn(a, b))
            except Exception:      # pylint: disable=broad-except
                return Sym('cmp', name, a, b)
        if name in ('is', 'is not') and (a is None or b is None):
            other = b if a is None else a
            if isinstance(other, (ClassV, FuncV, ObjV, EnumMember, ParserV, ComposerV, ListV, DictV, ValidatorV,
                                  AttrFieldV)):
                return name == 'is not'
        if name in ('is', 'is not'):
            # a python constant (bool, int, str, None) is never the same object as a class / singleton of a library
            for x, y in ((a, b), (b, a)):
                if is_const(x) and isinstance(y, ClassV):
                    return name == 'is not'
        if name in ('==', '!=', 'is', 'is not'):
            if isinstance(a, (EnumMember, ClassV)) and isinstance(b, (EnumMember, ClassV)) and type(a) is type(b):
                eq = (a == b)
                return eq if name in ('==', 'is') else (not eq)
        if name in ('in', 'not in') and isinstance(b, DictV) and b.complete and not b.star and is_const(a) and \
                all(is_const(k) for k, _ in b.pairs):
            r = any(k == a for k, _ in b.pairs)
            return r if name == 'in' else (not r)
        if name in ('in', 'not in') and isinstance(b, (ListV, tuple)):
            items = b.items if isinstance(b, ListV) else list(b)
            complete = b.complete if isinstance(b, ListV) else True
            if complete and all(isinstance(x, (EnumMember, ClassV)) or is_const(x) for x in items) and \
                    (isinstance(a, (EnumMember, ClassV)) or is_const(a)):
                r = any(x == a for x in items)
                return r if name == 'in' else (not r)
        return Sym('cmp', name, a, b)

    def dunder_compare(self, opnode, a, b, fr):
        """user-defined rich comparison of two abstract objects (enabled by the C17 check only): __lt__/__eq__ of the
        repository class, the other operators as functools.total_ordering derives them"""
        if not (isinstance(a, ObjV) and isinstance(b, ObjV) and isinstance(a.cls, ClassInfo)):
            return NotImplemented
        name = CMPOPS[type(opnode)][0]
        lt, eq = a.cls.resolve('__lt__'), a.cls.resolve('__eq__')

        def call(f, x, y):
            if f is None or getattr(self, '_dunder_depth', 0) > 6:
                return NotImplemented
            self._dunder_depth = getattr(self, '_dunder_depth', 0) + 1
            try:
                return self.call_function(f, x, [y], {}, fr)
            finally:
                self._dunder_depth -= 1
        if name == '<':
            return call(lt, a, b)
        if name == '==':
            return call(eq, a, b)
        if name == '!=':
            r = call(eq, a, b)
            return (not r) if isinstance(r, bool) else NotImplemented
        if name in ('>', '<=', '>='):
            l, e = call(lt, a, b), call(eq, a, b)
            if not isinstance(l, bool) or not isinstance(e, bool):
                return NotImplemented
            return {'>': not l and not e, '<=': l or e, '>=': not l}[name]
        return NotImplemented

    def e_Compare(self, node, fr):
        left = self.eval(node.left, fr)
        res = []
        for op, comp in zip(node.ops, node.comparators):
            right = self.eval(comp, fr)
            r = self.dunder_compare(op, left, right, fr) if getattr(self, 'dunder_cmp', False) else NotImplemented
            if r is NotImplemented:
                r = self.compare(op, left, right)
            if r is False:
                return False
            if r is not True:
                res.append(r)
            left = right
        if not res:
            return True
        return res[0] if len(res) == 1 else Sym('booland', *res)

    # -- comprehensions ---------------------------------------------------------------
    def _comp(self, node, fr, elt_fn):
        gen = node.generators[0]
        it = self.eval(gen.iter, fr)
        items = self.iter_items(it)
        sub = fr.child_env()
        out = []
        if items is not None and len(node.generators) == 1 and len(items) <= 128:
            complete = True
            for item in items:
                self.bind_target(gen.target, item, sub)
                keep = True
                for cond in gen.ifs:
                    t = truth(self.eval(cond, sub))
                    if t is False:
                        keep = False
                        break
                    if t is None:
                        complete = False
                if keep:
                    out.append(elt_fn(sub))
            return out, complete, None
        self.bind_target(gen.target, Sym('elem', it), sub)
        for g in node.generators[1:]:
            self.bind_target(g.target, Sym('elem', self.eval(g.iter, sub)), sub)
        conds = [self.eval(c, sub) for g in node.generators for c in g.ifs]
        return [elt_fn(sub)], False, (it, conds)

    def e_ListComp(self, node, fr):
        items, complete, meta = self._comp(node, fr, lambda s: self.eval(node.elt, s))
        if meta is None:
            return ListV(items, complete)
        return ListV([Sym('comp', items[0], meta[0], tuple(meta[1]))], False)

    e_GeneratorExp = e_ListComp

    def e_SetComp(self, node, fr):
        items, complete, meta = self._comp(node, fr, lambda s: self.eval(node.elt, s))
        return Sym('setcomp', *items)

    def e_DictComp(self, node, fr):
        items, complete, meta = self._comp(node, fr, lambda s: (self.eval(node.key, s), self.eval(node.value, s)))
        d = DictV(items, complete and meta is None)
        return d

    def iter_items(self, v):
        """Statically known items of an iterable, or None."""
        if isinstance(v, ListV):
            return list(v.items) if v.complete else None
        if isinstance(v, tuple):
            return list(v)
        if isinstance(v, DictV) and v.complete and not v.star:
            return [k for k, _ in v.pairs]
        if isinstance(v, ClassV) and isinstance(v.cls, ClassInfo) and v.cls.enum_members is not None:
            return self.enum_iter(v.cls)
        if isinstance(v, (str, bytes)):
            return list(v) if isinstance(v, str) else [x for x in v]
        return None

    def enum_iter(self, cls):
        """Canonical members in definition order (aliases excluded, as ``iter(Enum)`` does)."""
        seen = []
        out = []
        for name in cls.enum_members:
            val = self.enum_value(EnumMember(cls, name))
            key = repr(val) if not is_const(val) else val
            if is_const(val) and key in seen:
                continue
            seen.append(key)
            out.append(EnumMember(cls, name))
        return out

    def enum_value(self, member):
        raw = member.cls.enum_members.get(member.name)
        if isinstance(raw, ast.AST):
            key = ('enum', member.cls.qualname, member.name)
            if key not in self._var_memo:
                fr = self.new_frame(None, member.cls.module, recv=ClassV(member.cls), defcls=member.cls)
                fr.quiet = True
                self._var_memo[key] = self.eval(raw, fr)
            return self._var_memo[key]
        return raw

    # -- subscripts ---------------------------------------------------------------------
    def e_Subscript(self, node, fr):
        base = self.eval(node.value, fr)
        sl = node.slice
        if isinstance(sl, ast.Slice):
            lo = self.eval(sl.lower, fr) if sl.lower is not None else None
            hi = self.eval(sl.upper, fr) if sl.upper is not None else None
            st = self.eval(sl.step, fr) if sl.step is not None else None
            if st is None and is_const(base) and isinstance(base, (str, bytes, tuple)) and \
                    (lo is None or isinstance(lo, int)) and (hi is None or isinstance(hi, int)):
                return base[lo:hi]
            if st is None and isinstance(base, ListV) and base.complete and \
                    (lo is None or isinstance(lo, int)) and (hi is None or isinstance(hi, int)):
                return ListV(base.items[lo:hi])
            return Sym('slice', base, lo, hi) if st is None else Sym('slice3', base, lo, hi, st)
        idx = self.eval(sl, fr)
        return self.getitem(base, idx, node, fr)

    def getitem(self, base, idx, node=None, fr=None):
        if parser_alternatives(base) and isinstance(idx, str):
            return Sym('phi', *[self.getitem(a, idx, node, fr) for a in base.args])
        if isinstance(base, ParserV):
            if isinstance(idx, str):
                if idx in base.keys and idx not in base.deleted:
                    if idx in base.maybe and fr is not None and not fr.cond_depth:
                        self.risk(fr, 'key', ('builtins.KeyError',), Sym('maybekey', base, idx), node)
                    return base.keys[idx]
                if fr is not None:
                    self.risk(fr, 'key', ('builtins.KeyError',), Sym('missingkey', base, idx), node)
                return Sym('missingkey', base, idx)
            return Sym('index', base, idx)
        if fr is not None and idx in (0, 1) and not isinstance(idx, bool) and isinstance(base, Sym) and base.op == 'call' and base.args and \
                isinstance(base.args[0], Sym) and base.args[0].op == 'attr' and base.args[0].args[1] in ('parse_immutable', '_parse'):
            # the (object, length) pair every parse entry point returns (C03.R1 / C03.R3 decide that it is one)
            return Sym('index', base, idx)
        if fr is not None and isinstance(idx, int) and not isinstance(idx, bool) and not is_const(base) and \
                not isinstance(base, (tuple, DictV)) and not (isinstance(base, ListV) and base.complete) and \
                not self.at_least_one(base) and show(base) not in fr.nonempty and \
                not self.index_known(base, idx, fr) and \
                not (isinstance(base, Sym) and base.op == 'attr' and base.args[1] == 'args'):
            self.risk(fr, 'index', ('builtins.IndexError',), base, node)
        if isinstance(base, Sym) and base.op == 'phi' and base.args and all(isinstance(a, DictV) for a in base.args) and \
                any(not a.complete or a.get(idx) is not None for a in base.args):
            # alternatives of a mapping that is filled under keys the source does not spell out: nothing is known to be missing
            return Sym('index', base, idx)
        if fr is not None and isinstance(idx, str) and isinstance(base, (Sym, FieldV)):
            self.risk(fr, 'key', ('builtins.KeyError',), base, node)
        if isinstance(base, ListV) and isinstance(idx, int) and not isinstance(idx, bool):
            if base.complete and -len(base.items) <= idx < len(base.items):
                return base.items[idx]
            return Sym('index', base, idx)
        if isinstance(base, tuple) and isinstance(idx, int) and -len(base) <= idx < len(base):
            return base[idx]
        if isinstance(base, DictV):
            v = base.get(idx)
            if v is not None:
                return v
            for s in base.star:
                if isinstance(s, ParserV) and isinstance(idx, str) and idx in s.keys:
                    return s.keys[idx]
            if fr is not None and base.complete and not base.star and base.pairs and not is_const(idx) and not isinstance(idx, EnumMember) and \
                    all(isinstance(k, EnumMember) for k, _ in base.pairs) and not self.table_is_total(base) and \
                    ('#key of %s' % show(idx)) not in fr.nonempty:
                # a table spelled out in the source, keyed by members of one enumeration but not by all of them, looked up with a
                # value of the run: a member the table leaves out raises KeyError (``if / else`` had an implicit else, a table has none)
                self.risk(fr, 'tablekey', ('builtins.KeyError',), Sym('tablekey', idx), node)
            return Sym('index', base, idx)
        if is_const(base) and is_const(idx) and isinstance(base, (str, bytes)) and isinstance(idx, int):
            try:
                return base[idx]
            except IndexError:
                return Sym('index', base, idx)
        return Sym('index', base, idx)

    @staticmethod
    def table_is_total(table):
        """the keys of a literal table are all the members of the enumeration they belong to"""
        classes = {id(k.cls): k.cls for k, _ in table.pairs}
        if len(classes) != 1:
            return False
        cls = list(classes.values())[0]
        members = getattr(cls, 'enum_members', None)
        if not members:
            return False
        return {k.name for k, _ in table.pairs} >= set(members)

    @staticmethod
    def index_known(base, idx, fr):
        """an enclosing ``len(x) > k`` established that index ``idx`` of x (or of a bytes / bytearray copy of x) exists"""
        if idx < 0:
            return False
        b = base
        while isinstance(b, Sym) and b.op in ('bytes', 'bytearray', 'list', 'tuple') and len(b.args) == 1:
            b = b.args[0]
        return ('#index %d of %s' % (idx, show(b))) in fr.nonempty or ('#index %d of %s' % (idx, show(base))) in fr.nonempty

    @staticmethod
    def at_least_one(v):
        """sequence kinds known to hold at least one element: str.split(), parse_string_array without skip_empty,
        slices thereof are *not* included"""
        if isinstance(v, Sym) and v.op == 'call' and v.args and isinstance(v.args[0], Sym) and v.args[0].op == 'attr' \
                and v.args[0].args[1] in ('split', 'rsplit'):
            # with an explicit separator the result has at least one element; ``s.split()`` (any whitespace) of an empty or
            # blank string is the empty list
            return len(v.args) >= 2 and v.args[1] is not None and not (isinstance(v.args[1], tuple) and v.args[1][:1] == ('kw',))
        if isinstance(v, Sym) and v.op == 'call' and v.args and v.args[0] == 'struct.unpack':
            return True
        if isinstance(v, FieldV) and v.op is not None and v.op.prim == 'parse_string_array':
            se = v.op.args.get('skip_empty', False)
            return se is False
        if isinstance(v, ListV) and v.items and not isinstance(v.items[0], Sym):
            return True
        if isinstance(v, ListV) and len(v.items) >= 1 and all(not (isinstance(x, Sym) and x.op in ('splat', 'repeat', 'comp')) for x in v.items[:1]):
            return True
        return False

    # -- attributes -------------------------------------------------------------------
    def e_Attribute(self, node, fr):
        base = self.eval(node.value, fr)
        if node.attr == 'native' and isinstance(base, Sym) and base.op == 'call' and base.args and 'load' in show(base.args[0]):
            # asn1crypto decodes lazily: .native of the object returned by load() walks the whole structure and raises
            # ValueError (malformed / short encoding) or KeyError (ENUMERATED value outside the schema map); an element that does
            # not fit the schema at its position ends in TypeError (an optional field of another tag expected: core.py Sequence
            # _parse_children) or AttributeError (a universal type without a native value: core.py Sequence.native) - external.json
            self.risk(fr, 'ext:.native', ('builtins.ValueError', 'builtins.KeyError', 'builtins.TypeError', 'builtins.AttributeError'), base, node)
        if node.attr not in EAGER_ATTRIBUTES and lazily_decoded(base):
            # objects of the dependency built from DER (PublicKeyX509.from_der -> asn1crypto Certificate.load) decode their
            # members on first access: reading a property of one walks into the undecoded part and raises ValueError there
            self.risk(fr, 'ext:lazy.%s' % node.attr, ('builtins.ValueError',), base, node)
        return self.getattr_v(base, node.attr, fr, node)

    def class_attr(self, cinfo, attr, recv, fr):
        """Attribute lookup on a class object (methods, class variables, enum members)."""
        if cinfo.enum_members is not None and attr in cinfo.enum_members:
            return EnumMember(cinfo, attr)
        f = cinfo.resolve(attr)
        if f is not None:
            return FuncV(f, recv=recv, defcls=f.cls)
        v = cinfo.resolve_var(attr)
        if v is not None:
            return self.eval_var(v)
        if attr == '__name__':
            return cinfo.name
        return Unknown('class attr %s.%s' % (cinfo.name, attr))

    def field_type(self, cinfo, fld, fr):
        """Statically declared class of an attrs field (converter class or instance_of(T))."""
        key = ('ftype', cinfo.qualname, fld.name)
        if key in self._var_memo:
            return self._var_memo[key]
        typ = None
        sub = self.new_frame(None, fld.owner.module, recv=ClassV(fld.owner), defcls=fld.owner)
        sub.quiet = True
        if fld.converter_node is not None:
            cv = self.eval(fld.converter_node, sub)
            if isinstance(cv, ClassV) and isinstance(cv.cls, ClassInfo):
                typ = cv.cls
        if typ is None and fld.validator_node is not None:
            vv = self.eval(fld.validator_node, sub)
            while isinstance(vv, ValidatorV) and vv.kind == 'optional':
                vv = vv.inner
            if isinstance(vv, ValidatorV) and vv.kind in ('instance_of', 'in_') and isinstance(vv.type, ClassV) and \
                    isinstance(vv.type.cls, ClassInfo):
                typ = vv.type.cls
            elif isinstance(vv, ValidatorV) and vv.kind == 'instance_of' and isinstance(vv.type, tuple) and vv.type and \
                    all(isinstance(x, ClassV) and isinstance(x.cls, ClassInfo) for x in vv.type):
                typ = ('union', [x.cls for x in vv.type])
            elif isinstance(vv, ValidatorV) and vv.kind == 'deep_iterable' and isinstance(vv.inner, ValidatorV) and \
                    vv.inner.kind in ('instance_of', 'in_') and isinstance(vv.inner.type, ClassV) and \
                    isinstance(vv.inner.type.cls, ClassInfo):
                typ = ('iter', vv.inner.type.cls)
        if typ is None:
            post = cinfo.resolve('__attrs_post_init__')
            if post is not None:
                for st in ast.walk(post.node):
                    if isinstance(st, ast.Assign) and len(st.targets) == 1 and isinstance(st.targets[0], ast.Attribute) and \
                            isinstance(st.targets[0].value, ast.Name) and st.targets[0].value.id == 'self' and \
                            st.targets[0].attr == fld.name and isinstance(st.value, ast.Call):
                        cv = self.eval(st.value.func, self.new_frame(None, post.module, recv=ClassV(cinfo), defcls=post.cls))
                        if isinstance(cv, ClassV) and isinstance(cv.cls, ClassInfo):
                            typ = cv.cls
        self._var_memo[key] = typ
        return typ

    def getattr_v(self, base, attr, fr, node=None):
        if isinstance(base, FieldV) and base.op is not None and base.op.prim == 'parse_timestamp' and fr is not None and \
                ('#notnone %s' % show(base)) not in fr.nonempty:
            # parse_timestamp stores None for the all-ones word (the "no time" sentinel): an attribute of the parsed value is an
            # attribute of None for that input
            self.risk(fr, 'none-attr', ('builtins.AttributeError',), Sym('maybenone', base), node)
        if parser_alternatives(base):
            # one of several parsers (``try: parser = helper(...)  except: parser = ParserBinary(...)``): the attribute of each
            vals = [self.getattr_v(a, attr, fr, node) for a in base.args]
            if all(isinstance(v, FuncV) for v in vals) and len({id(v.func) for v in vals}) == 1:
                return FuncV(vals[0].func, recv=base, defcls=vals[0].defcls)
            return Sym('phi', *vals)
        if isinstance(base, ParserV):
            n = len(base.ops)
            if attr == 'parsed_length':
                return Sym('plen', base, n)
            if attr == 'unparsed_length':
                return Sym('ulen', base, n)
            if attr == 'unparsed':
                return Sym('unparsed', base, n)
            if attr == 'byte_order':
                return base.order
            if attr == '_parsed_length':
                return Sym('plen', base, n)
            if attr == '_parsable':
                return Sym('bytesof', base)
            if attr == '_parsed_values':
                return Sym('valuesof', base)
            if attr == '_encoding':
                return base.encoding
            f = self.parser_class(base).resolve(attr)
            if f is not None:
                if f.is_property and fr is not None:
                    return self.call_function(f, base, [], {}, fr, node)
                return FuncV(f, recv=base, defcls=f.cls)
            v = self.parser_class(base).resolve_var(attr)
            if v is not None:
                return self.eval_var(v)         # a class level constant of the parser class (a word size, a header size)
            return Unknown('parser attr %s' % attr)
        if isinstance(base, ComposerV):
            n = len(base.ops)
            if attr in ('composed', 'composed_bytes', '_composed'):
                return BytesV([('composer', base, n)])
            if attr == 'composed_length':
                return Sym('len', BytesV([('composer', base, n)]))
            if attr == 'byte_order':
                return base.order
            f = self.composer_class(base).resolve(attr)
            if f is not None:
                return FuncV(f, recv=base, defcls=f.cls)
            v = self.composer_class(base).resolve_var(attr)
            if v is not None:
                return self.eval_var(v)
            return Unknown('composer attr %s' % attr)
        if isinstance(base, ClassV):
            if isinstance(base.cls, ClassInfo):
                return self.class_attr(base.cls, attr, base, fr)
            return ClassV(ExtRef(base.cls.dotted + '.' + attr))
        if isinstance(base, ModuleV):
            return self.sym_to_value(self.model.lookup_module_attr(base.name, attr))
        if isinstance(base, SuperV):
            mro = self.recv_class(base.recv).mro
            try:
                i = mro.index(base.after)
            except ValueError:
                return Unknown('super: %s not in MRO' % base.after.name)
            for c in mro[i + 1:]:
                if isinstance(c, ClassInfo) and attr in c.methods:
                    return FuncV(c.methods[attr], recv=base.recv, defcls=c)
            if attr == '__init__':
                for c in mro[i + 1:]:
                    if isinstance(c, ClassInfo) and c.attrs_decorated:
                        return FuncV(ExtRef('attrs.__init__'), recv=base.recv, defcls=c)
                return FuncV(ExtRef('object.__init__'), recv=base.recv)
            return Unknown('super attr %s' % attr)
        if isinstance(base, ObjV):
            if attr in base.attrs:
                return base.attrs[attr]
            f = base.cls.resolve(attr)
            if f is not None:
                if f.is_property:
                    return self.call_function(f, base, [], {}, fr, node)
                return FuncV(f, recv=base, defcls=f.cls)
            v = base.cls.resolve_var(attr)
            if v is not None:
                return self.eval_var(v)
            return Sym('attr', base, attr)
        if isinstance(base, SelfV):
            return self.self_attr(base, attr, fr, node)
        if isinstance(base, EnumMember):
            if attr == 'value':
                return self.enum_value(base)
            if attr == 'name':
                return base.name
            f = base.cls.resolve(attr)
            if f is not None:
                return FuncV(f, recv=base, defcls=f.cls)
            return Sym('attr', base, attr)
        if isinstance(base, ParamsValue):
            if attr in base.fields:
                v = base.fields[attr]
                return v if is_const(v) else Sym('attr', base, attr)
            pc = base.params_class
            if isinstance(pc, ClassInfo):
                f = pc.resolve(attr)
                if f is not None:
                    return FuncV(f, recv=ClassV(pc), defcls=f.cls)
            return Sym('attr', base, attr)
        if isinstance(base, AttrFieldV):
            fld = base.field
            sub = self.new_frame(None, fld.owner.module, recv=ClassV(fld.owner), defcls=fld.owner)
            sub.quiet = True
            if attr == 'name':
                return fld.name
            if attr == 'validator':
                return self.eval(fld.validator_node, sub) if fld.validator_node is not None else None
            if attr == 'converter':
                return self.eval(fld.converter_node, sub) if fld.converter_node is not None else None
            if attr == 'default':
                if fld.default_node is not None:
                    return self.eval(fld.default_node, sub)
                return ClassV(ExtRef('attr.NOTHING')) if not fld.has_default else Unknown('factory default')
            if attr == 'metadata':
                return self.eval(fld.metadata_node, sub) if fld.metadata_node is not None else DictV()
            if attr == 'init':
                return fld.init
            return Unknown('attr.Attribute.%s' % attr)
        if isinstance(base, ValidatorV):
            if attr == 'type':
                return base.type
            if attr in ('validator', 'member_validator'):
                return base.inner
            return Unknown('validator attr %s' % attr)
        if isinstance(base, (Sym, FieldV, Unknown, InputV, BytesV, ListV, DictV, str, bytes, int, float, tuple)) \
                or base is None:
            return Sym('attr', base, attr)
        return Sym('attr', base, attr)

    def self_attr(self, base, attr, fr, node):
        holder = base.typ if base.path else base.root_cls
        if not isinstance(holder, ClassInfo):
            holder = None
        if holder is None:
            return SelfV(base.path + (attr,), None, base.root_cls)
        f = holder.resolve(attr)
        if f is not None:
            if f.is_property:
                if fr is not None and fr.depth < self.max_depth and not f.abstract:
                    return self.call_function(f, base, [], {}, fr, node)
                return SelfV(base.path + (attr,), None, base.root_cls)
            return FuncV(f, recv=base, defcls=f.cls)
        fld = holder.field(attr) if holder.has_attrs() else None
        if fld is not None and not fld.init:
            val = self.init_assigned_attr(holder, attr, base)
            if val is not None:
                return val
        if fld is not None:
            typ = self.field_type(holder, fld, fr)
            if not isinstance(typ, ClassInfo) and fr is not None:
                typ = fr.env.get('__refined__', {}).get(base.path + (fld.name,), typ)
            return SelfV(base.path + (fld.name,), typ, base.root_cls)
        v = holder.resolve_var(attr)
        if v is not None:
            return self.eval_var(v)
        # attribute assigned in __attrs_post_init__ / __init__ from class-level information only
        val = self.init_assigned_attr(holder, attr, base)
        if val is not None:
            return val
        return SelfV(base.path + (attr,), None, base.root_cls)

    def init_assigned_attr(self, holder, attr, base):
        key = ('initattr', holder.qualname, attr)
        if key in self._var_memo:
            return self._var_memo[key]
        res = None
        for mname in ('__attrs_post_init__', '__init__'):
            f = holder.resolve(mname)
            if f is None:
                continue
            for st in ast.walk(f.node):
                if isinstance(st, ast.Assign) and len(st.targets) == 1 and isinstance(st.targets[0], ast.Attribute) \
                        and isinstance(st.targets[0].value, ast.Name) and st.targets[0].value.id == 'self' \
                        and st.targets[0].attr == attr and isinstance(st.value, ast.Call) \
                        and isinstance(st.value.func, ast.Attribute) and isinstance(st.value.func.value, ast.Name) \
                        and st.value.func.value.id == 'self' and not st.value.args and not st.value.keywords:
                    g = holder.resolve(st.value.func.attr)
                    if g is not None and g.kind == 'classmethod' and not g.abstract:
                        sub = self.new_frame(None, g.module, recv=ClassV(holder), defcls=g.cls)
                        sub.quiet = True
                        res = self.call_function(g, ClassV(holder), [], {}, sub, st.value)
            if res is not None:
                break
        self._var_memo[key] = res
        return res
