"""Structured trace produced by the DSL interpreter: a tree of events."""
from __future__ import annotations


class Node:
    kind = 'node'
    lineno = None


class Op(Node):
    """A primitive call on a parser / composer (``parse_numeric``, ``compose_bytes`` ...)."""
    kind = 'op'

    def __init__(self, target, side, prim, args, key=None, node=None, func=None):
        self.target = target      # ParserV | ComposerV | None
        self.side = side          # 'parse' | 'compose'
        self.prim = prim          # primitive name
        self.args = args          # dict param name -> abstract value (bound through the real signature)
        self.key = key            # parser key written (parse side)
        self.node = node          # ast.Call
        self.func = func          # FuncInfo of the enclosing function
        self.lineno = getattr(node, 'lineno', None)

    def __repr__(self):
        from .values import show
        return '%s %r.%s(%s)' % (self.side, self.target, self.prim,
                                 ', '.join('%s=%s' % (k, show(v)) for k, v in self.args.items()))


class New(Node):
    kind = 'new'

    def __init__(self, obj, node=None):
        self.obj = obj
        self.lineno = getattr(node, 'lineno', None)

    def __repr__(self):
        return 'new %r' % (self.obj,)


class Alt(Node):
    kind = 'alt'

    def __init__(self, cond, then, orelse, node=None):
        self.cond = cond
        self.then = then
        self.orelse = orelse
        self.node = node
        self.lineno = getattr(node, 'lineno', None)


class Loop(Node):
    kind = 'loop'

    def __init__(self, how, iterable, var, body, node=None):
        self.how = how            # 'for' | 'while'
        self.iterable = iterable  # value iterated / condition
        self.var = var
        self.body = body
        self.node = node
        self.lineno = getattr(node, 'lineno', None)


class Try(Node):
    kind = 'try'

    def __init__(self, body, handlers, orelse, final, node=None):
        self.body = body
        self.handlers = handlers  # [(exception class values, name, block)]
        self.orelse = orelse
        self.final = final
        self.node = node
        self.lineno = getattr(node, 'lineno', None)


class Raise(Node):
    kind = 'raise'

    def __init__(self, exc, args, node=None, func=None, cause=None):
        self.exc = exc            # ClassV | value
        self.args = args
        self.node = node
        self.func = func
        self.cause = cause
        self.lineno = getattr(node, 'lineno', None)

    def __repr__(self):
        from .values import show
        return 'raise %s(%s)' % (show(self.exc), ', '.join(show(a) for a in self.args))


class Return(Node):
    kind = 'return'

    def __init__(self, value, node=None, func=None):
        self.value = value
        self.node = node
        self.func = func
        self.lineno = getattr(node, 'lineno', None)

    def __repr__(self):
        from .values import show
        return 'return %s' % show(self.value)


class Continue(Node):
    """``continue``: the rest of the loop body is not executed on this path (folded by layout.structure like an early return)"""
    kind = 'continue'

    def __init__(self, node=None, func=None):
        self.node = node
        self.func = func
        self.lineno = getattr(node, 'lineno', None)

    def __repr__(self):
        return 'continue'


class Effect(Node):
    """A side effect other than a DSL primitive: mutation of a container, attribute
    store, key deletion, nested parse call ..."""
    kind = 'effect'

    def __init__(self, what, target, args=(), node=None, func=None):
        self.what = what          # 'setattr' | 'mutcall' | 'delkey' | 'setitem' | 'delitem' | 'augassign' | 'call'
        self.target = target
        self.args = args
        self.node = node
        self.func = func
        self.lineno = getattr(node, 'lineno', None)

    def __repr__(self):
        from .values import show
        return 'effect %s %s %s' % (self.what, show(self.target), ', '.join(show(a) for a in self.args))


class Risk(Node):
    """An operation on a non-constant value that may raise: (kind, exception class names, operand)."""
    kind = 'risk'

    def __init__(self, what, excs, operand=None, node=None, func=None):
        self.what = what          # 'decode' | 'encode' | 'int' | 'next' | 'index' | 'key' | 'enumconv' | 'callparam' | 'ext:<dotted>'
        self.excs = tuple(excs)
        self.operand = operand
        self.node = node
        self.func = func
        self.lineno = getattr(node, 'lineno', None)

    def __repr__(self):
        from .values import show
        return 'risk %s %s on %s' % (self.what, '/'.join(self.excs), show(self.operand))


class Inline(Node):
    """An inlined call of a repository function; ``Return`` nodes inside terminate only this block."""
    kind = 'inline'

    def __init__(self, func, recv_cls, node=None):
        self.callee = func
        self.recv_cls = recv_cls
        self.body = []
        self.node = node
        self.lineno = getattr(node, 'lineno', None)


class Opaque(Node):
    kind = 'opaque'

    def __init__(self, why, node=None, func=None):
        self.why = why
        self.node = node
        self.func = func
        self.lineno = getattr(node, 'lineno', None)

    def __repr__(self):
        return 'opaque(%s)' % self.why


def walk(block):
    """Pre-order iteration over all nodes of a block tree."""
    for n in block:
        yield n
        if isinstance(n, Alt):
            for x in walk(n.then):
                yield x
            for x in walk(n.orelse):
                yield x
        elif isinstance(n, (Loop, Inline)):
            for x in walk(n.body):
                yield x
        elif isinstance(n, Try):
            for x in walk(n.body):
                yield x
            for _, _, hb in n.handlers:
                for x in walk(hb):
                    yield x
            for x in walk(n.orelse):
                yield x
            for x in walk(n.final):
                yield x


def dump(block, indent=0, out=None):
    out = out if out is not None else []
    pad = '  ' * indent
    for n in block:
        if isinstance(n, Alt):
            from .values import show
            out.append('%sif %s:' % (pad, show(n.cond)))
            dump(n.then, indent + 1, out)
            if n.orelse:
                out.append('%selse:' % pad)
                dump(n.orelse, indent + 1, out)
        elif isinstance(n, Loop):
            from .values import show
            out.append('%s%s %s in %s:' % (pad, n.how, n.var, show(n.iterable)))
            dump(n.body, indent + 1, out)
        elif isinstance(n, Inline):
            out.append('%scall %s:' % (pad, n.callee.qualname))
            dump(n.body, indent + 1, out)
        elif isinstance(n, Try):
            out.append('%stry:' % pad)
            dump(n.body, indent + 1, out)
            for excs, name, hb in n.handlers:
                out.append('%sexcept %s:' % (pad, excs))
                dump(hb, indent + 1, out)
            if n.orelse:
                out.append('%selse:' % pad)
                dump(n.orelse, indent + 1, out)
            if n.final:
                out.append('%sfinally:' % pad)
                dump(n.final, indent + 1, out)
        else:
            out.append('%s%r' % (pad, n))
    return out
