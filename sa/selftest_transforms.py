"""Mechanical, behaviour-preserving source transformations applied to the whole package (sa.selftest benign variants
``benign.mech.*``): every check has to stay at exit 0 on the transformed tree.  Each transformation is semantics
preserving by construction for the code it is applied to (the applicability conditions are stated per class); the
transformed trees were also run through the pinned test suite once when the transformation was written
(tools/mech_suite.sh).  They complement the hand-written and the agent-written refactorings: those change one place in
an interesting way, these change every place in a boring way."""
from __future__ import annotations

import ast
import os


def _simple(e):
    """operands whose evaluation has no effect and cannot fail differently when evaluated in another order"""
    if isinstance(e, (ast.Name, ast.Constant)):
        return True
    if isinstance(e, ast.Attribute):
        return _simple(e.value)
    if isinstance(e, ast.Subscript):
        return _simple(e.value) and isinstance(e.slice, ast.Constant)
    if isinstance(e, ast.Call) and isinstance(e.func, ast.Name) and e.func.id == 'len' and len(e.args) == 1 and not e.keywords:
        return _simple(e.args[0])
    if isinstance(e, ast.BinOp) and isinstance(e.op, (ast.Add, ast.Sub, ast.Mult)):
        return _simple(e.left) and _simple(e.right)
    return False


def _negate(test):
    if isinstance(test, ast.UnaryOp) and isinstance(test.op, ast.Not):
        return test.operand
    if isinstance(test, ast.Compare) and len(test.ops) == 1:
        flip = {ast.Eq: ast.NotEq, ast.NotEq: ast.Eq, ast.Is: ast.IsNot, ast.IsNot: ast.Is, ast.In: ast.NotIn, ast.NotIn: ast.In}
        for a, b in flip.items():
            if isinstance(test.ops[0], a):
                return ast.Compare(left=test.left, ops=[b()], comparators=test.comparators)
    return ast.UnaryOp(op=ast.Not(), operand=test)


class SwapIfBranches(ast.NodeTransformer):
    """``if c: A else: B``  ->  ``if not c: B else: A`` (always equivalent)"""

    def visit_If(self, node):
        self.generic_visit(node)
        if node.orelse:
            return ast.If(test=_negate(node.test), body=node.orelse, orelse=node.body)
        return node


class ReturnViaLocal(ast.NodeTransformer):
    """``return e``  ->  ``_rv = e; return _rv`` (always equivalent; `_rv` is not used by the package)"""

    def visit_Return(self, node):
        if node.value is None or isinstance(node.value, (ast.Constant, ast.Name)):
            return node
        return [ast.Assign(targets=[ast.Name(id='_rv', ctx=ast.Store())], value=node.value, lineno=node.lineno),
                ast.Return(value=ast.Name(id='_rv', ctx=ast.Load()))]

    def visit_Lambda(self, node):
        return node


class NestedIfForAnd(ast.NodeTransformer):
    """``if a and b: X`` (no else)  ->  ``if a: if b: X`` (always equivalent); ``not (a and b)`` -> ``not a or not b``"""

    def visit_If(self, node):
        self.generic_visit(node)
        if not node.orelse and isinstance(node.test, ast.BoolOp) and isinstance(node.test.op, ast.And):
            inner = node.body
            for v in reversed(node.test.values):
                inner = [ast.If(test=v, body=inner, orelse=[])]
            return inner[0]
        return node

    def visit_UnaryOp(self, node):
        self.generic_visit(node)
        if isinstance(node.op, ast.Not) and isinstance(node.operand, ast.BoolOp):
            other = ast.Or() if isinstance(node.operand.op, ast.And) else ast.And()
            return ast.BoolOp(op=other, values=[_negate(v) for v in node.operand.values])
        return node


class ExpandAugAssign(ast.NodeTransformer):
    """``x op= e``  ->  ``x = x op e`` for a plain name or attribute target whose value is a number: the right hand side is
    an integer literal, or the target's name says what it holds (length / offset / count / size / num)"""
    WORDS = ('length', 'offset', 'count', 'size', 'num', 'index', 'shift')

    def visit_AugAssign(self, node):
        t = node.target
        name = t.id if isinstance(t, ast.Name) else (t.attr if isinstance(t, ast.Attribute) and _simple(t.value) else None)
        if name is None or not isinstance(node.op, (ast.Add, ast.Sub, ast.Mult, ast.BitOr, ast.LShift, ast.RShift)):
            return node
        numeric = (isinstance(node.value, ast.Constant) and isinstance(node.value.value, int)) or any(w in name.lower() for w in self.WORDS)
        if not numeric:
            return node
        load = ast.Name(id=t.id, ctx=ast.Load()) if isinstance(t, ast.Name) else ast.Attribute(value=t.value, attr=t.attr, ctx=ast.Load())
        return ast.Assign(targets=[t], value=ast.BinOp(left=load, op=node.op, right=node.value), lineno=node.lineno)


class FlipOrderComparisons(ast.NodeTransformer):
    """``a < b``  ->  ``b > a`` (and the other three) when both operands are simple"""
    FLIP = {ast.Lt: ast.Gt, ast.Gt: ast.Lt, ast.LtE: ast.GtE, ast.GtE: ast.LtE}

    def visit_Compare(self, node):
        self.generic_visit(node)
        if len(node.ops) == 1 and type(node.ops[0]) in self.FLIP and _simple(node.left) and _simple(node.comparators[0]):
            return ast.Compare(left=node.comparators[0], ops=[self.FLIP[type(node.ops[0])]()], comparators=[node.left])
        return node


class SplitPairUnpacking(ast.NodeTransformer):
    """``a, b = K.parse_immutable(...)``  ->  ``_pair = K.parse_immutable(...); a = _pair[0]; b = _pair[1]`` for the calls
    that return an (object, length) pair by the package's own convention"""
    PAIRS = ('parse_immutable', 'parse_mutable', '_parse', '_parse_string_until_separator', '_parse_string_by_length', '_parse_parsable_derived_array')

    def visit_Assign(self, node):
        if len(node.targets) == 1 and isinstance(node.targets[0], ast.Tuple) and len(node.targets[0].elts) == 2 and \
                all(isinstance(e, ast.Name) for e in node.targets[0].elts) and isinstance(node.value, ast.Call) and \
                isinstance(node.value.func, ast.Attribute) and node.value.func.attr in self.PAIRS:
            a, b = node.targets[0].elts
            tmp = '_pair'
            return [ast.Assign(targets=[ast.Name(id=tmp, ctx=ast.Store())], value=node.value, lineno=node.lineno),
                    ast.Assign(targets=[a], value=ast.Subscript(value=ast.Name(id=tmp, ctx=ast.Load()), slice=ast.Constant(0), ctx=ast.Load()), lineno=node.lineno),
                    ast.Assign(targets=[b], value=ast.Subscript(value=ast.Name(id=tmp, ctx=ast.Load()), slice=ast.Constant(1), ctx=ast.Load()), lineno=node.lineno)]
        return node


class IfExpToStatement(ast.NodeTransformer):
    """``x = a if c else b``  ->  ``if c: x = a else: x = b`` (always equivalent for a plain name target)"""

    def visit_Assign(self, node):
        if len(node.targets) == 1 and isinstance(node.targets[0], ast.Name) and isinstance(node.value, ast.IfExp):
            t = node.targets[0]
            return ast.If(test=node.value.test,
                          body=[ast.Assign(targets=[t], value=node.value.body, lineno=node.lineno)],
                          orelse=[ast.Assign(targets=[ast.Name(id=t.id, ctx=ast.Store())], value=node.value.orelse, lineno=node.lineno)])
        return node


class EarlyExit(ast.NodeTransformer):
    """``if c: A...; return/raise  else: B``  ->  ``if c: A...; return/raise`` followed by ``B`` (equivalent because the
    first branch never falls through)"""

    def _fix(self, stmts):
        out = []
        for st in stmts:
            if isinstance(st, ast.If) and st.orelse and st.body and isinstance(st.body[-1], (ast.Return, ast.Raise)):
                out.append(ast.If(test=st.test, body=st.body, orelse=[]))
                out.extend(self._fix(st.orelse))
            else:
                out.append(st)
        return out

    def generic_visit(self, node):
        super().generic_visit(node)
        for field in ('body', 'orelse', 'finalbody'):
            v = getattr(node, field, None)
            if isinstance(v, list) and v and all(isinstance(x, ast.stmt) for x in v):
                setattr(node, field, self._fix(v))
        return node


class WhileTrue(ast.NodeTransformer):
    """``while c: B`` (no else)  ->  ``while True: if not c: break; B`` (equivalent: ``continue`` re-enters at the test)"""

    def visit_While(self, node):
        self.generic_visit(node)
        if node.orelse or (isinstance(node.test, ast.Constant) and node.test.value is True):
            return node
        return ast.While(test=ast.Constant(True), body=[ast.If(test=_negate(node.test), body=[ast.Break()], orelse=[])] + node.body, orelse=[])


class ConditionViaLocal(ast.NodeTransformer):
    """``if <test>: ...``  ->  ``_c = <test>; if _c: ...`` (the test is evaluated at the same point; an ``elif`` becomes
    ``else: _c = ...; if _c:``).  Loop conditions are left alone"""

    def _fix(self, stmts):
        out = []
        for st in stmts:
            if isinstance(st, ast.If) and not isinstance(st.test, (ast.Name, ast.Constant)):
                out.append(ast.Assign(targets=[ast.Name(id='_c', ctx=ast.Store())], value=st.test, lineno=st.lineno))
                out.append(ast.If(test=ast.Name(id='_c', ctx=ast.Load()), body=st.body, orelse=st.orelse))
            else:
                out.append(st)
        return out

    def generic_visit(self, node):
        super().generic_visit(node)
        for field in ('body', 'orelse', 'finalbody'):
            v = getattr(node, field, None)
            if isinstance(v, list) and v and all(isinstance(x, ast.stmt) for x in v):
                setattr(node, field, self._fix(v))
        return node


class NegatedMembership(ast.NodeTransformer):
    """``a not in b``  ->  ``not (a in b)``, ``a is not b``  ->  ``not (a is b)`` (always equivalent)"""

    def visit_Compare(self, node):
        self.generic_visit(node)
        if len(node.ops) == 1 and isinstance(node.ops[0], (ast.NotIn, ast.IsNot)):
            pos = ast.In() if isinstance(node.ops[0], ast.NotIn) else ast.Is()
            return ast.UnaryOp(op=ast.Not(), operand=ast.Compare(left=node.left, ops=[pos], comparators=node.comparators))
        return node


class TupleReturnViaLocals(ast.NodeTransformer):
    """``return a, b``  ->  ``_r0 = a; _r1 = b; return (_r0, _r1)`` (components evaluated in the same order)"""

    def visit_Return(self, node):
        if isinstance(node.value, ast.Tuple) and len(node.value.elts) >= 2 and not any(isinstance(e, ast.Starred) for e in node.value.elts):
            out, names = [], []
            for i, e in enumerate(node.value.elts):
                nm = '_r%d' % i
                out.append(ast.Assign(targets=[ast.Name(id=nm, ctx=ast.Store())], value=e, lineno=node.lineno))
                names.append(ast.Name(id=nm, ctx=ast.Load()))
            out.append(ast.Return(value=ast.Tuple(elts=names, ctx=ast.Load())))
            return out
        return node

    def visit_Lambda(self, node):
        return node


class KeywordArguments(ast.NodeTransformer):
    """positional arguments of parser / composer primitive calls written as keyword arguments (``parser.parse_numeric('k', 2)``
    -> ``parser.parse_numeric(name='k', item_size=2)``): the parameter names are read from common/parse.py; a method name
    defined with different parameter lists in the binary and the text classes is left alone, and so is every call whose
    receiver is not a plain name containing ``parser`` / ``composer``"""
    SIGNATURES = None

    @classmethod
    def load(cls, root):
        sigs, clash = {}, set()
        with open(os.path.join(root, 'cryptoparser', 'common', 'parse.py')) as f:
            tree = ast.parse(f.read())
        for k in tree.body:
            if isinstance(k, ast.ClassDef) and k.name in ('ParserBase', 'ParserBinary', 'ParserText', 'ComposerBase', 'ComposerBinary', 'ComposerText'):
                for m in k.body:
                    if isinstance(m, ast.FunctionDef) and not m.name.startswith('__') and not m.args.vararg and not m.args.kwarg:
                        params = [a.arg for a in m.args.args[1:]]
                        if m.name in sigs and sigs[m.name] != params:
                            clash.add(m.name)
                        sigs[m.name] = params
        cls.SIGNATURES = {k: v for k, v in sigs.items() if k not in clash}

    def visit_Call(self, node):
        self.generic_visit(node)
        f = node.func
        if isinstance(f, ast.Attribute) and isinstance(f.value, ast.Name) and ('parser' in f.value.id or 'composer' in f.value.id) and \
                f.attr in (self.SIGNATURES or {}) and node.args and not any(isinstance(a, ast.Starred) for a in node.args):
            params = self.SIGNATURES[f.attr]
            if len(node.args) <= len(params) and not any(k.arg in params[:len(node.args)] for k in node.keywords if k.arg):
                kws = [ast.keyword(arg=p, value=a) for p, a in zip(params, node.args)]
                return ast.Call(func=f, args=[], keywords=kws + list(node.keywords))
        return node


class ComprehensionToLoop(ast.NodeTransformer):
    """``x = [e for v in it]`` (one generator, no condition, plain name targets, x and v not used elsewhere in the function
    before / the loop variable not at all outside)  ->  ``x = []; for v in it: x.append(e)``"""

    def visit_FunctionDef(self, node):
        self.generic_visit(node)
        names = {}
        for n in ast.walk(node):
            if isinstance(n, ast.Name):
                names[n.id] = names.get(n.id, 0) + 1
            elif isinstance(n, ast.arg):
                names[n.arg] = names.get(n.arg, 0) + 1

        def fix(stmts):
            out = []
            for st in stmts:
                for field in ('body', 'orelse', 'finalbody'):
                    v = getattr(st, field, None)
                    if isinstance(v, list) and v and all(isinstance(x, ast.stmt) for x in v) and not isinstance(st, (ast.FunctionDef, ast.ClassDef)):
                        setattr(st, field, fix(v))
                if isinstance(st, ast.Try):
                    for h in st.handlers:
                        h.body = fix(h.body)
                if isinstance(st, ast.Assign) and len(st.targets) == 1 and isinstance(st.targets[0], ast.Name) and isinstance(st.value, ast.ListComp) and \
                        len(st.value.generators) == 1 and not st.value.generators[0].ifs and isinstance(st.value.generators[0].target, ast.Name):
                    g = st.value.generators[0]
                    v = g.target.id
                    inside = sum(1 for n in ast.walk(st.value) if isinstance(n, ast.Name) and n.id == v)
                    if names.get(v, 0) == inside and st.targets[0].id != v and \
                            not any(isinstance(n, ast.Name) and n.id == st.targets[0].id for n in ast.walk(st.value)):
                        out.append(ast.Assign(targets=[st.targets[0]], value=ast.List(elts=[], ctx=ast.Load()), lineno=st.lineno))
                        out.append(ast.For(target=ast.Name(id=v, ctx=ast.Store()), iter=g.iter, orelse=[], lineno=st.lineno, body=[
                            ast.Expr(value=ast.Call(func=ast.Attribute(value=ast.Name(id=st.targets[0].id, ctx=ast.Load()), attr='append', ctx=ast.Load()),
                                                    args=[st.value.elt], keywords=[]))]))
                        continue
                out.append(st)
            return out
        node.body = fix(node.body)
        return node


TRANSFORMS = {
    'swap-if-branches': SwapIfBranches,
    'return-via-local': ReturnViaLocal,
    'nested-if-for-and': NestedIfForAnd,
    'expand-augassign': ExpandAugAssign,
    'flip-order-comparisons': FlipOrderComparisons,
    'split-pair-unpacking': SplitPairUnpacking,
    'ifexp-to-statement': IfExpToStatement,
    'early-exit': EarlyExit,
    'while-true': WhileTrue,
    'condition-via-local': ConditionViaLocal,
    'negated-membership': NegatedMembership,
    'tuple-return-via-locals': TupleReturnViaLocals,
    'keyword-arguments': KeywordArguments,
    'comprehension-to-loop': ComprehensionToLoop,
}


def apply_transform(root, name, only=None):
    """rewrite every module of the package under ``root`` through the transformation; returns the number of modules changed"""
    cls = TRANSFORMS[name]
    if hasattr(cls, 'load'):
        cls.load(root)
    n = 0
    for dp, _, fns in os.walk(os.path.join(root, 'cryptoparser')):
        for fn in fns:
            if not fn.endswith('.py'):
                continue
            p = os.path.join(dp, fn)
            if only is not None and not p.endswith(only):
                continue
            with open(p) as f:
                src = f.read()
            tree = ast.parse(src)
            before = ast.unparse(tree)
            tree = cls().visit(tree)
            ast.fix_missing_locations(tree)
            after = ast.unparse(tree)
            if after != before:
                ast.parse(after)
                with open(p, 'w') as f:
                    f.write(after + '\n')
                n += 1
    return n
