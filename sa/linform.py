"""Linear forms over AST expressions: const + sum(coeff * atom), with the parser cursor identities

    X.unparsed_length  ==  len(X._parsable) - X._parsed_length      X.parsed_length == X._parsed_length

built in, so that guards and payloads written in different spellings compare equal."""
from __future__ import annotations

import ast


class Lin:
    def __init__(self, const=0, terms=None):
        self.const = const
        self.terms = {k: v for k, v in (terms or {}).items() if v}

    def __add__(self, o):
        t = dict(self.terms)
        for k, v in o.terms.items():
            t[k] = t.get(k, 0) + v
        return Lin(self.const + o.const, t)

    def __neg__(self):
        return Lin(-self.const, {k: -v for k, v in self.terms.items()})

    def __sub__(self, o):
        return self + (-o)

    def scale(self, n):
        return Lin(self.const * n, {k: v * n for k, v in self.terms.items()})

    def __eq__(self, o):
        return isinstance(o, Lin) and self.const == o.const and self.terms == o.terms

    def is_const(self):
        return not self.terms

    def __repr__(self):
        parts = ['%s%s' % ('' if v == 1 else ('-' if v == -1 else '%d*' % v), k) for k, v in sorted(self.terms.items())]
        if self.const or not parts:
            parts.append(str(self.const))
        return ' + '.join(parts)


def _base(node):
    return ast.unparse(node)


def single_defs(func_node):
    """locals of a function that are assigned exactly once, by a plain ``name = <expr>`` (no augmented assignment, no loop
    target, no tuple target, not a parameter): they can be replaced by their definition"""
    counts, values = {}, {}
    for n in ast.walk(func_node):
        if isinstance(n, ast.Assign):
            for t in n.targets:
                for x in ast.walk(t):
                    if isinstance(x, ast.Name):
                        counts[x.id] = counts.get(x.id, 0) + 1
                        if isinstance(t, ast.Name) and len(n.targets) == 1:
                            values[x.id] = n.value
        elif isinstance(n, (ast.AugAssign, ast.AnnAssign)) and isinstance(n.target, ast.Name):
            counts[n.target.id] = counts.get(n.target.id, 0) + 2
        elif isinstance(n, (ast.For, ast.comprehension)):
            for x in ast.walk(n.target):
                if isinstance(x, ast.Name):
                    counts[x.id] = counts.get(x.id, 0) + 2
        elif isinstance(n, ast.arg):
            counts[n.arg] = counts.get(n.arg, 0) + 2
    return {k: v for k, v in values.items() if counts.get(k) == 1}


def lin(node, consts=None, defs=None, _depth=0):
    """AST expression -> Lin, or None when not linear.  ``consts`` maps atom spellings to integers; ``defs`` (single_defs)
    lets single-assignment locals stand for their definition"""
    consts = consts or {}
    if defs and isinstance(node, ast.Name) and node.id in defs and _depth < 6:
        x = lin(defs[node.id], consts, defs, _depth + 1)
        if x is not None:
            return x
        return Lin(0, {node.id: 1})         # defined once by something that is not linear: the name itself is the atom
    if isinstance(node, ast.Constant) and isinstance(node.value, int) and not isinstance(node.value, bool):
        return Lin(node.value)
    if isinstance(node, ast.UnaryOp) and isinstance(node.op, ast.USub):
        x = lin(node.operand, consts, defs, _depth)
        return None if x is None else -x
    if isinstance(node, ast.BinOp):
        a, b = lin(node.left, consts, defs, _depth), lin(node.right, consts, defs, _depth)
        if isinstance(node.op, ast.Add) and a is not None and b is not None:
            return a + b
        if isinstance(node.op, ast.Sub) and a is not None and b is not None:
            return a - b
        if isinstance(node.op, ast.Mult) and a is not None and b is not None:
            if a.is_const():
                return b.scale(a.const)
            if b.is_const():
                return a.scale(b.const)
            # product of two non-constants: one opaque, order-normalised atom
            fa, fb = sorted([repr(a), repr(b)])
            return Lin(0, {'(%s)*(%s)' % (fa, fb): 1})
        if isinstance(node.op, ast.Pow) and a is not None and b is not None and a.is_const() and b.is_const() and 0 <= b.const < 256:
            return Lin(a.const ** b.const)
        return None
    if isinstance(node, ast.Attribute):
        if node.attr == 'unparsed_length':
            return Lin(0, {'ulen(%s)' % _base(node.value): 1})
        if node.attr in ('parsed_length', '_parsed_length'):
            return Lin(0, {'plen(%s)' % _base(node.value): 1})
        s = ast.unparse(node)
        if s in consts:
            return Lin(consts[s])
        return Lin(0, {s: 1})
    if isinstance(node, ast.Call) and isinstance(node.func, ast.Name) and node.func.id == 'len' and len(node.args) == 1:
        a = node.args[0]
        if isinstance(a, ast.Attribute) and a.attr == '_parsable':
            b = _base(a.value)
            return Lin(0, {'ulen(%s)' % b: 1, 'plen(%s)' % b: 1})
        return Lin(0, {'len(%s)' % ast.unparse(a): 1})
    if isinstance(node, (ast.Name, ast.Subscript, ast.Call)):
        s = ast.unparse(node)
        if s in consts:
            return Lin(consts[s])
        return Lin(0, {s: 1})
    return None


def guard_deficit(test, consts=None, defs=None):
    """For a comparison ``A < B`` / ``B > A`` return (needed - available as Lin, strict?) where the condition
    being true means 'available < needed'.  None when the test is not such a comparison."""
    if not (isinstance(test, ast.Compare) and len(test.ops) == 1):
        return None
    op = test.ops[0]
    l, r = lin(test.left, consts, defs), lin(test.comparators[0], consts, defs)
    if l is None or r is None:
        return None
    if isinstance(op, ast.Lt):
        return (r - l, True)
    if isinstance(op, ast.Gt):
        return (l - r, True)
    if isinstance(op, ast.LtE):
        return (r - l, False)
    if isinstance(op, ast.GtE):
        return (l - r, False)
    return None


def enclosing_ifs(func_node, target):
    """List of (If node, in_body?) from the outermost to the innermost If containing ``target``."""
    path = []

    def rec(node, acc):
        if node is target:
            path.extend(acc)
            return True
        for field, value in ast.iter_fields(node):
            items = value if isinstance(value, list) else [value]
            for it in items:
                if isinstance(it, ast.AST):
                    nacc = acc
                    if isinstance(node, ast.If) and field in ('body', 'orelse'):
                        nacc = acc + [(node, field == 'body')]
                    if rec(it, nacc):
                        return True
        return False
    rec(func_node, [])
    return path


def enclosing_handlers(func_node, target):
    out = []

    def rec(node, acc):
        if node is target:
            out.extend(acc)
            return True
        for field, value in ast.iter_fields(node):
            items = value if isinstance(value, list) else [value]
            for it in items:
                if isinstance(it, ast.AST):
                    nacc = acc + [it] if isinstance(it, ast.ExceptHandler) else acc
                    if rec(it, nacc):
                        return True
        return False
    rec(func_node, [])
    return out
