"""E8 self-test (not a manifest command): every rule must fire on a scratch copy with one instance broken, and every
check must stay silent on benign variants of the tree.

    python3 -m sa.selftest [-j16] [--only NAME-substring] [--seeded] [--benign]   (cwd /verif)

Scratch copies live under $TMPDIR (never under /repo or /verif) and are removed as soon as their run is over."""
from __future__ import annotations

import argparse
import ast
import concurrent.futures
import json
import os
import shutil
import subprocess
import sys
import tempfile
import time

VERIF = os.path.dirname(os.path.dirname(os.path.abspath(__file__)))
REPO = os.environ.get('VERIF_REPO', '/repo')
ALL = ['C%02d' % i for i in range(1, 20)]


def make_copy():
    d = tempfile.mkdtemp(prefix='cp-selftest-')
    shutil.copytree(os.path.join(REPO, 'cryptoparser'), os.path.join(d, 'cryptoparser'),
                    ignore=shutil.ignore_patterns('__pycache__'))
    return d


def apply_edits(root, edits):
    for rel, old, new in edits:
        p = os.path.join(root, rel)
        with open(p) as f:
            s = f.read()
        if s.count(old) < 1:
            raise RuntimeError('variant edit does not apply: %s: %r' % (rel, old[:60]))
        s = s.replace(old, new, 1)
        ast.parse(s)
        with open(p, 'w') as f:
            f.write(s)


def apply_patch(root, patch_file):
    # the stored patch has to apply the way the seeds are documented to be applied (git apply, no fuzz)
    r = subprocess.run(['git', '-C', REPO, 'apply', '--check', patch_file], capture_output=True, text=True)
    if r.returncode != 0:
        raise RuntimeError('git apply --check fails on the current tree (seed needs a rebase): %s' % (r.stderr.strip()[:200]))
    r = subprocess.run(['patch', '-p1', '-s', '-d', root, '-i', patch_file], capture_output=True, text=True)
    if r.returncode != 0:
        raise RuntimeError('patch does not apply: %s %s' % (patch_file, r.stdout + r.stderr))


def reformat(root):
    """benign: rewrite every module through ast.unparse (drops comments, changes layout and quoting)"""
    for dp, _, fns in os.walk(os.path.join(root, 'cryptoparser')):
        for fn in fns:
            if fn.endswith('.py'):
                p = os.path.join(dp, fn)
                with open(p) as f:
                    t = ast.parse(f.read())
                with open(p, 'w') as f:
                    f.write(ast.unparse(t) + '\n')


def run_checks(root, props):
    ev = tempfile.mkdtemp(prefix='cp-selftest-ev-')
    env = dict(os.environ, VERIF_REPO=root, VERIF_EVIDENCE_DIR=ev)
    out = {}
    try:
        for p in props:
            r = subprocess.run([sys.executable, '-m', 'sa.check', p, '--tier', 'quick'], cwd=VERIF, env=env, capture_output=True, text=True)
            out[p] = (r.returncode, r.stdout + r.stderr)
    finally:
        shutil.rmtree(ev, ignore_errors=True)
    return out


def run_variant(v):
    root = make_copy()
    t0 = time.time()
    try:
        if v.get('reformat'):
            reformat(root)
        if v.get('transform'):
            from .selftest_transforms import apply_transform
            if apply_transform(root, v['transform']) == 0:
                raise RuntimeError('transformation %s changed nothing' % v['transform'])
        if v.get('edits'):
            apply_edits(root, v['edits'])
        if v.get('patch'):
            apply_patch(root, v['patch'])
        props = v.get('props') or ALL
        res = run_checks(root, props)
    except Exception as e:      # pylint: disable=broad-except
        return v['name'], False, 'setup failed: %s' % e, time.time() - t0
    finally:
        shutil.rmtree(root, ignore_errors=True)
    problems = []
    if v['kind'] == 'breaking':
        hit = False
        for p in v['expect']:
            code, out = res[p]
            if code == 1 and (not v.get('mention') or any(m in out for m in v['mention'])):
                hit = True
            elif code == 2:
                problems.append('%s: analysis error: %s' % (p, out.strip().splitlines()[-1][:200] if out.strip() else ''))
        if v.get('all'):
            silent = [p for p in v['expect'] if res[p][0] == 0]
            if silent:
                problems.append('recorded as detected by %s, but silent now: %s' % (v['expect'], silent))
        if not hit:
            problems.append('no expected check fired (%s): %s' % (v['expect'], {p: res[p][0] for p in v['expect']}))
    else:
        for p, (code, out) in res.items():
            if code != 0:
                lines = [l for l in out.splitlines() if l.startswith(('VIOLATION', 'ANALYSIS-ERROR', '  rule='))][:4]
                problems.append('%s exit %d: %s' % (p, code, ' | '.join(lines)[:400]))
    fired = sorted(p for p, (code, _) in res.items() if code == 1)
    return v['name'], not problems, '; '.join(problems) or ('fired: %s' % fired), time.time() - t0


def load_variants(seeded=False, benign=False):
    from .selftest_variants import VARIANTS
    vs = list(VARIANTS)
    if benign:
        bd = os.path.join(VERIF, 'benign')
        if os.path.isdir(bd):
            for name in sorted(os.listdir(bd)):
                if os.path.isfile(os.path.join(bd, name, 'meta.json')):
                    vs.append({'name': 'benign/' + name, 'kind': 'benign', 'patch': os.path.join(bd, name, 'patch.diff')})
    if seeded:
        sd = os.path.join(VERIF, 'seeded')
        if os.path.isdir(sd):
            for name in sorted(os.listdir(sd)):
                meta = os.path.join(sd, name, 'meta.json')
                if os.path.isfile(meta):
                    with open(meta) as f:
                        m = json.load(f)
                    if m.get('undetected'):
                        continue        # a recorded miss (DESIGN section 11): listed, not run
                    vs.append({'name': 'seeded/' + name, 'kind': 'breaking', 'patch': os.path.join(sd, name, 'patch.diff'),
                               'expect': m.get('detected_by') or [m['property']], 'props': ALL if m.get('run_all') else (m.get('detected_by') or [m['property']]), 'all': True})
    return vs


def main():
    ap = argparse.ArgumentParser()
    ap.add_argument('-j', type=int, default=16)
    ap.add_argument('--only', default=None)
    ap.add_argument('--seeded', action='store_true')
    ap.add_argument('--benign', action='store_true', help='also the stored behaviour-preserving refactorings (benign/*): all 19 checks stay at exit 0')
    a = ap.parse_args()
    vs = load_variants(a.seeded, a.benign)
    if a.only:
        vs = [v for v in vs if any(o in v['name'] for o in a.only.split(','))]
    t0 = time.time()
    bad = 0
    with concurrent.futures.ThreadPoolExecutor(max_workers=a.j) as ex:
        for name, ok, msg, dt in ex.map(run_variant, vs):
            print('%-7s %-55s %5.1fs  %s' % ('ok' if ok else 'FAIL', name, dt, msg[:300]))
            bad += 0 if ok else 1
    print('%d variants, %d failed, %.1fs' % (len(vs), bad, time.time() - t0))
    return 1 if bad else 0


if __name__ == '__main__':
    sys.exit(main())
