"""Abstract values of the DSL interpreter (E2/E5).

Python constants (int, str, bytes, bool, None, float) and tuples of abstract values
are represented by themselves.  Everything else is one of the classes below.
"""
from __future__ import annotations

from .model import ClassInfo, EnumMember, ExtRef, FuncInfo, ParamsValue


class Unknown:
    """A value the analyser cannot determine.  Never guessed at."""
    __slots__ = ('why',)

    def __init__(self, why=''):
        self.why = why

    def __repr__(self):
        return '?(%s)' % self.why

    def __eq__(self, other):
        return isinstance(other, Unknown)

    def __hash__(self):
        return 17


class Sym:
    """Symbolic expression: op applied to abstract values."""
    __slots__ = ('op', 'args', 'cond')

    def __init__(self, op, *args):
        self.op = op
        self.args = tuple(args)
        self.cond = None        # phi only: the branch condition (args[0] is the value of the true branch)

    def __repr__(self):
        return show(self)

    def __eq__(self, other):
        return isinstance(other, Sym) and self.op == other.op and self.args == other.args

    def __hash__(self):
        try:
            return hash((self.op, self.args))
        except TypeError:
            return hash(self.op)


class ClassV:
    __slots__ = ('cls',)

    def __init__(self, cls):
        self.cls = cls      # ClassInfo | ExtRef

    def __repr__(self):
        return getattr(self.cls, 'name', None) or repr(self.cls)

    def __eq__(self, other):
        return isinstance(other, ClassV) and self.cls == other.cls

    def __hash__(self):
        return hash(('cls', getattr(self.cls, 'qualname', None) or self.cls))


class FuncV:
    __slots__ = ('func', 'recv', 'defcls')

    def __init__(self, func, recv=None, defcls=None):
        self.func = func    # FuncInfo | ExtRef
        self.recv = recv    # bound receiver value or None
        self.defcls = defcls

    def __repr__(self):
        return 'fn:%s' % (getattr(self.func, 'qualname', None) or self.func)

    def __eq__(self, other):
        return isinstance(other, FuncV) and self.func == other.func

    def __hash__(self):
        return hash(('fn', id(self.func)))


class LambdaV:
    __slots__ = ('node', 'env', 'module')

    def __init__(self, node, env, module):
        self.node = node
        self.env = env
        self.module = module

    def __repr__(self):
        return 'lambda'


class ObjV:
    """An instance whose class and (some) attributes are statically known."""
    _n = 0

    def __init__(self, cls, attrs=None, ctor_args=None, node=None):
        self.cls = cls              # ClassInfo
        self.attrs = attrs if attrs is not None else {}
        self.ctor_args = ctor_args  # dict param name -> V (as passed) | None
        self.star = []              # **mapping values passed to the constructor
        self.node = node
        ObjV._n += 1
        self.oid = ObjV._n

    def __repr__(self):
        return '%s(%s)' % (self.cls.name, ', '.join('%s=%s' % (k, show(v)) for k, v in self.attrs.items()))


class ListV:
    def __init__(self, items=None, complete=True):
        self.items = list(items or [])
        self.complete = complete

    def __repr__(self):
        return '[%s%s]' % (', '.join(show(i) for i in self.items), '' if self.complete else ', ...')


class DictV:
    def __init__(self, pairs=None, complete=True):
        self.pairs = list(pairs or [])   # [(key V, value V)]
        self.complete = complete
        self.star = []                   # mappings merged in (e.g. dict(parser))

    def get(self, key):
        for k, v in reversed(self.pairs):
            if k == key:
                return v
        return None

    def set(self, key, value):
        self.pairs = [(k, v) for k, v in self.pairs if k != key] + [(key, value)]

    def __repr__(self):
        return '{%s%s}' % (', '.join('%s: %s' % (show(k), show(v)) for k, v in self.pairs),
                           '' if self.complete else ', ...')


class ParserV:
    def __init__(self, pid, kind, over, order, node):
        self.pid = pid
        self.kind = kind        # 'binary' | 'text'
        self.over = over        # value it was constructed on
        self.order = order      # byte order value
        self.node = node
        self.ops = []           # Op events in execution order (across branches)
        self.keys = {}          # key -> FieldV (latest definition)
        self.maybe = set()      # keys defined on some paths only
        self.deleted = set()
        self.encoding = 'ascii'

    def __repr__(self):
        return 'P%d' % self.pid


class ComposerV:
    def __init__(self, cid, kind, order, node):
        self.cid = cid
        self.kind = kind
        self.order = order
        self.node = node
        self.ops = []
        self.encoding = 'ascii'

    def __repr__(self):
        return 'C%d' % self.cid


class FieldV:
    """The value stored under ``parser[key]`` by a primitive."""
    __slots__ = ('parser', 'key', 'op')

    def __init__(self, parser, key, op):
        self.parser = parser
        self.key = key
        self.op = op

    def __repr__(self):
        return '%r[%s]' % (self.parser, self.key)

    def __eq__(self, other):
        return isinstance(other, FieldV) and self.parser is other.parser and self.key == other.key and self.op is other.op

    def __hash__(self):
        return hash((self.parser.pid, self.key))


class InputV:
    """The ``parsable`` argument of a ``_parse``."""
    __slots__ = ('name',)

    def __init__(self, name='parsable'):
        self.name = name

    def __repr__(self):
        return 'INPUT'

    def __eq__(self, other):
        return isinstance(other, InputV)

    def __hash__(self):
        return 3


class SelfV:
    """``self`` (path == ()) or an attribute path rooted at it; ``typ`` is the statically
    known class of the value, when the attrs declaration fixes one."""
    __slots__ = ('path', 'typ', 'root_cls')

    def __init__(self, path, typ, root_cls):
        self.path = tuple(path)
        self.typ = typ
        self.root_cls = root_cls

    def __repr__(self):
        return 'self' + ''.join('.' + p for p in self.path)

    def __eq__(self, other):
        return isinstance(other, SelfV) and self.path == other.path

    def __hash__(self):
        return hash(('self', self.path))


class BytesV:
    """A byte string assembled from parts (compose side).  Parts are layout elements
    (see layout.py) or references to composers (``('composer', ComposerV, n_ops)``)."""

    def __init__(self, parts=None):
        self.parts = list(parts or [])

    def __repr__(self):
        return 'bytes<%s>' % ', '.join(repr(p) for p in self.parts)


class ValidatorV:
    def __init__(self, kind, type_=None, inner=None, node=None):
        self.kind = kind        # instance_of | optional | in_ | deep_iterable | and_ | other
        self.type = type_
        self.inner = inner
        self.node = node

    def __repr__(self):
        return 'validator:%s(%s)' % (self.kind, show(self.type) if self.type is not None else show(self.inner))


class AttrFieldV:
    """An ``attr.Attribute`` as returned by ``attr.fields(cls)``."""

    def __init__(self, field, owner_cls):
        self.field = field
        self.owner_cls = owner_cls

    def __repr__(self):
        return 'attrfield:%s' % self.field.name


class ModuleV:
    __slots__ = ('name',)

    def __init__(self, name):
        self.name = name

    def __repr__(self):
        return 'module:%s' % self.name


def is_const(v):
    if isinstance(v, (int, str, bytes, bool, float)) or v is None:
        return True
    if isinstance(v, tuple):
        return all(is_const(x) for x in v)
    return False


def is_known(v):
    return not isinstance(v, (Unknown, Sym))


def show(v, depth=0):
    if depth > 6:
        return '...'
    if isinstance(v, Sym):
        a = v.args
        d = depth + 1
        if v.op in ('add', 'sub', 'mul', 'floordiv', 'div', 'mod', 'and', 'or', 'xor', 'lshift', 'rshift', 'pow') and len(a) == 2:
            s = {'add': '+', 'sub': '-', 'mul': '*', 'floordiv': '//', 'div': '/', 'mod': '%', 'and': '&',
                 'or': '|', 'xor': '^', 'lshift': '<<', 'rshift': '>>', 'pow': '**'}[v.op]
            return '(%s %s %s)' % (show(a[0], d), s, show(a[1], d))
        if v.op == 'cmp':
            return '(%s %s %s)' % (show(a[1], d), a[0], show(a[2], d))
        if v.op == 'attr':
            return '%s.%s' % (show(a[0], d), a[1])
        if v.op == 'len':
            return 'len(%s)' % show(a[0], d)
        if v.op == 'index':
            return '%s[%s]' % (show(a[0], d), show(a[1], d))
        if v.op == 'slice':
            return '%s[%s:%s]' % (show(a[0], d), '' if a[1] is None else show(a[1], d), '' if a[2] is None else show(a[2], d))
        if v.op == 'call':
            return '%s(%s)' % (show(a[0], d), ', '.join(show(x, d) for x in a[1:]))
        if v.op == 'not':
            return 'not %s' % show(a[0], d)
        if v.op == 'plen':
            return '%r.parsed_length@%d' % (a[0], a[1])
        if v.op == 'ulen':
            return '%r.unparsed_length@%d' % (a[0], a[1])
        if v.op == 'unparsed':
            return '%r.unparsed@%d' % (a[0], a[1])
        return '%s(%s)' % (v.op, ', '.join(show(x, d) for x in a))
    if isinstance(v, tuple):
        return '(%s)' % ', '.join(show(x, depth + 1) for x in v)
    if isinstance(v, EnumMember):
        return repr(v)
    if isinstance(v, ClassInfo):
        return v.name
    if isinstance(v, bytes):
        return repr(v)
    return repr(v)
