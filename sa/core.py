"""E7: findings, known-findings database, evidence writer, check driver."""
from __future__ import annotations

import hashlib
import json
import os
import sys
import time
import traceback

from .model import AnalysisError, load_model

VERIF = os.path.dirname(os.path.dirname(os.path.abspath(__file__)))
EVIDENCE_DIR = os.environ.get('VERIF_EVIDENCE_DIR') or os.path.join(VERIF, 'evidence')
KNOWN_PATH = os.path.join(VERIF, 'known_findings.json')


class Finding:
    def __init__(self, prop, rule, construct, detail, witness=None):
        self.prop = prop
        self.rule = rule
        self.construct = construct      # 'path/to/module.py:Class.method@what' -- never a line number
        self.detail = detail
        self.witness = witness

    @property
    def key(self):
        return '%s|%s' % (self.rule, self.construct)

    def as_dict(self):
        d = {'property': self.prop, 'rule': self.rule, 'construct': self.construct, 'detail': self.detail}
        if self.witness is not None:
            d['witness'] = self.witness
        return d


class Report:
    def __init__(self, prop, tier):
        self.prop = prop
        self.tier = tier
        self.findings = []
        self.instances = {}         # rule -> number of instances evaluated
        self.nontrivial = {}        # rule -> distinct non-trivial instances
        self.discharged = {}        # rule -> obligations that held
        self.samples = []
        self.notes = []
        self.errors = []
        self.functions = set()
        self.undecided = []         # obligations the analyser could not decide (silent, listed)
        self.controls = {}          # rule -> True/False (positive control fired)
        self.rules = {}             # rule -> one line description

    def rule(self, rid, text):
        self.rules[rid] = text

    def add(self, rule, construct, detail, witness=None):
        f = Finding(self.prop, rule, construct, detail, witness)
        if f.key not in {x.key for x in self.findings}:
            self.findings.append(f)
        return f

    def count(self, rule, n=1, nontrivial=None, ok=None):
        self.instances[rule] = self.instances.get(rule, 0) + n
        self.nontrivial[rule] = self.nontrivial.get(rule, 0) + (n if nontrivial is None else nontrivial)
        if ok is not None:
            self.discharged[rule] = self.discharged.get(rule, 0) + ok

    def floor(self, rule, minimum, what):
        got = self.instances.get(rule, 0)
        if got < minimum and any(f.rule == rule for f in self.findings):
            return      # the rule stopped at its first finding: it is not blind, it fired
        if got < minimum:
            self.errors.append('%s: only %d %s found, at least %d were confirmed by hand on the pinned tree '
                               '(anchor moved or analyser blind)' % (rule, got, what, minimum))

    def sample(self, obj, limit=12):
        if len(self.samples) < limit:
            self.samples.append(obj)

    def error(self, msg):
        self.errors.append(msg)

    def control(self, rule, fired, what=''):
        self.controls[rule] = bool(fired)
        if not fired:
            self.errors.append('%s: positive control did not fire (%s) -- rule is blind' % (rule, what))

    def touch(self, func):
        self.functions.add(getattr(func, 'construct', str(func)))


class Context:
    def __init__(self, tier):
        self.tier = tier
        self.thorough = tier == 'thorough'
        self.model = load_model()
        self._interp = None
        self._canon = None

    @property
    def interp(self):
        if self._interp is None:
            from .interp import Interp
            self._interp = Interp(self.model)
        return self._interp

    @property
    def canon(self):
        if self._canon is None:
            from .canon import Ctx
            self._canon = Ctx(self.model, self.interp)
        return self._canon


def representatives(ctx, method='_parse'):
    """Concrete parsable classes to analyse: thorough = all of them; quick = one receiver class per distinct
    definition of ``method`` (the defining class itself when it is concrete, else its first concrete subclass)."""
    classes = ctx.model.concrete_parsables()
    if ctx.thorough:
        return classes
    seen = {}
    for c in classes:
        f = c.resolve(method)
        if f is None:
            continue
        if f not in seen or (f.cls is c):
            if f not in seen or seen[f].resolve(method).cls is not seen[f]:
                seen[f] = c
    return list(seen.values())


def load_known():
    if not os.path.isfile(KNOWN_PATH):
        return []
    with open(KNOWN_PATH) as f:
        data = json.load(f)
    return data.get('findings', [])


def replay_path(prop, finding):
    h = hashlib.sha1(finding.key.encode()).hexdigest()[:12]
    return os.path.join(EVIDENCE_DIR, 'replay', '%s-%s.json' % (prop, h))


def write_evidence(report, wall, violations, known_hit, explanation, assumptions, trusted_base, exhaustive):
    os.makedirs(EVIDENCE_DIR, exist_ok=True)
    evaluations = sum(report.instances.values())
    nontrivial = sum(report.nontrivial.values())
    obligations = evaluations
    discharged = evaluations - len(report.findings) - len(report.undecided)
    cov = {
        'explanation': explanation,
        'rule': 'one case per rule instance (class, call site, raise site, field, enum member, region pair ...) '
                'enumerated from the current source of /repo; an instance is non-trivial when its obligation is '
                'not vacuously true (see rules)',
        'rules': report.rules,
        'evaluations': evaluations,
        'distinct_nontrivial': nontrivial,
        'obligations': obligations,
        'discharged': max(discharged, 0),
        'undecided': len(report.undecided),
        'undecided_samples': report.undecided[:10],
        'rule_instances': report.instances,
        'functions_analysed': len(report.functions),
        'samples': report.samples or [{'note': 'no sample recorded'}],
        'known_findings': known_hit,
        'violations_detail': [f.as_dict() for f in violations][:50],
        'controls': report.controls,
        'trusted_base': trusted_base,
        'checker_cmd': 'python3 -m sa.check %s --tier %s' % (report.prop, report.tier),
        'exhaustive': bool(exhaustive),
        'notes': report.notes[:40],
        'repo': os.environ.get('VERIF_REPO', '/repo'),
    }
    ev = {
        'property_id': report.prop,
        'tier': report.tier,
        'seed': int(os.environ.get('VERIF_SEED', '0') or 0),
        'level': 'other',
        'coverage': cov,
        'assumptions': assumptions,
        'wall_s': round(wall, 3),
        'violations': len(violations),
    }
    path = os.path.join(EVIDENCE_DIR, '%s.json' % report.prop)
    tmp = path + '.tmp'
    with open(tmp, 'w') as f:
        json.dump(ev, f, indent=1, sort_keys=False, default=str)
    os.replace(tmp, path)
    return path


def run(prop, tier, module, replay=None):
    t0 = time.time()
    report = Report(prop, tier)
    try:
        ctx = Context(tier)
        module.check(ctx, report)
    except AnalysisError as e:
        print('ANALYSIS-ERROR property=%s %s' % (prop, e))
        return 2
    except Exception:      # pylint: disable=broad-except
        print('ANALYSIS-ERROR property=%s internal error in the analyser' % prop)
        traceback.print_exc()
        return 2
    known = [k for k in load_known() if k.get('property') == prop]
    open_keys = {'%s|%s' % (k['rule'], k['construct']): k for k in known if k.get('status') == 'open'}
    violations = []
    known_hit = []
    for f in report.findings:
        k = open_keys.get(f.key)
        if k is not None:
            known_hit.append({'rule': f.rule, 'construct': f.construct, 'what': k.get('what', f.detail)})
        else:
            violations.append(f)
    stale = [k for key, k in open_keys.items() if key not in {f.key for f in report.findings}]
    for k in stale:
        report.notes.append('known finding no longer reproduces: %s %s' % (k['rule'], k['construct']))
    wall = time.time() - t0
    meta = getattr(module, 'META', {})
    if report.errors:
        for e in report.errors:
            print('ANALYSIS-ERROR property=%s %s' % (prop, e))
        return 2
    write_evidence(report, wall, violations, known_hit, meta.get('explanation', ''), meta.get('assumptions', []),
                   meta.get('trusted_base', []), meta.get('exhaustive', False))
    print('property=%s tier=%s rules=%d instances=%d functions=%d undecided=%d wall=%.2fs' % (
        prop, tier, len(report.instances), sum(report.instances.values()), len(report.functions),
        len(report.undecided), wall))
    for r in sorted(report.instances):
        print('  %-8s instances=%-5d %s' % (r, report.instances[r], report.rules.get(r, '')))
    for k in known_hit:
        print('KNOWN-FINDING: property=%s rule=%s construct=%s %s' % (prop, k['rule'], k['construct'], k['what']))
    for k in stale:
        print('NOTE: listed known finding did not reproduce: %s %s' % (k['rule'], k['construct']))
    if replay:
        with open(replay) as f:
            want = json.load(f)
        hit = [f for f in report.findings if f.key == want.get('key')]
        if hit:
            print('VIOLATION property=%s replay=%s' % (prop, replay))
            print('  rule=%s construct=%s detail=%s' % (hit[0].rule, hit[0].construct, hit[0].detail))
            return 1
        print('replayed finding no longer reproduces: %s' % want.get('key'))
        return 0
    if violations:
        os.makedirs(os.path.join(EVIDENCE_DIR, 'replay'), exist_ok=True)
        for f in violations:
            rp = replay_path(prop, f)
            with open(rp, 'w') as fh:
                json.dump(dict(f.as_dict(), key=f.key), fh, indent=1, default=str)
            print('VIOLATION property=%s replay=%s' % (prop, rp))
            print('  rule=%s construct=%s detail=%s' % (f.rule, f.construct, f.detail))
        return 1
    return 0
