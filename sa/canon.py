"""Canonical wire layouts and their comparison (C01.R1/R2, C05.R1, basis of the spec comparisons).

A canonical layout is a tree of ``El`` in which
  * ``lp(w, body)`` has been expanded into ``u(w)`` + body with a *length link*,
  * N-byte enum factories are ``u(n)``, arrays of them ``array(u n)``,
  * every ``u`` that carries a length has ``link = (unit, const, positions)`` meaning
    ``value == const + sum(unit(el) for el in positions)`` with unit in {'bytes', 'count'}.
"""
from __future__ import annotations

from .model import ClassInfo, EnumMember, ExtRef
from .layout import El, cls_name, compose_layout, order_tag, parse_layout, sigs
from .values import (BytesV, ClassV, ComposerV, FieldV, InputV, ListV, ObjV, ParserV, SelfV, Sym, Unknown, is_const,
                     show)


class Ctx:
    """Per run cache: layouts of classes (both sides), constant classmethods."""

    def __init__(self, model, interp):
        self.model = model
        self.interp = interp
        self._lay = {}
        self._canon = {}

    def layout(self, cls, side):
        key = (cls.qualname, side)
        if key not in self._lay:
            self._lay[key] = None       # recursion guard
            r = self.interp.run(cls, '_parse' if side == 'parse' else 'compose')
            lay = parse_layout(r, self.interp) if side == 'parse' else compose_layout(r, self.interp)
            lay.result = r
            self._lay[key] = lay
        return self._lay[key]

    def canon(self, cls, side):
        key = (cls.qualname, side)
        if key not in self._canon:
            self._canon[key] = None
            lay = self.layout(cls, side)
            if lay is None:
                return None
            self._canon[key] = canonical(lay.elements, side, self, lay)
        return self._canon[key]

    def byte_num(self, cls):
        if isinstance(cls, ClassV):
            cls = cls.cls
        if isinstance(cls, ClassInfo) and cls.resolve('get_byte_num') is not None:
            r = self.interp.const_call(cls, 'get_byte_num')
            if isinstance(r, int):
                return r
        return None

    def is_enum_factory(self, cls):
        if isinstance(cls, ClassV):
            cls = cls.cls
        return isinstance(cls, ClassInfo) and cls.is_subclass_of('NByteEnumParsable')

    def param(self, cls):
        if isinstance(cls, ClassV):
            cls = cls.cls
        if isinstance(cls, ClassInfo) and cls.resolve('get_param') is not None:
            p = self.interp.const_call(cls, 'get_param')
            if isinstance(p, ObjV):
                return p
        return None


class Canon:
    def __init__(self, elements, side):
        self.elements = elements
        self.side = side
        self.flat = []          # pre-order list of leaf-ish elements (positions)
        self.notes = []


def big_endian():
    return 'be'


def canonical(elements, side, ctx, lay=None):
    els = _expand(elements, side, ctx)
    c = Canon(els, side)
    _index(els, c.flat)
    if side == 'parse':
        _links_parse(c, ctx)
    else:
        _links_compose(c, ctx, lay)
    return c


def _expand(elements, side, ctx):
    out = []
    for e in elements:
        k = e.kind
        if k == 'lp':
            body = _expand(e.body, side, ctx)
            if e.extra.get('sub') is None and len(body) == 1 and body[0].kind == 'raw' and body[0].size == 'all':
                body[0].size = None
            u = El('u', w=e.w, order=e.order, key=e.key, op=e.op, val=None)
            u.extra['lp_body'] = body
            u.extra['of'] = e
            out.append(u)
            out.extend(body)
            for b in body:
                b.extra.setdefault('in_lp', u)
        elif k == 'nested' and ctx.is_enum_factory(e.cls):
            n = ctx.byte_num(e.cls)
            u = El('u', w=n, order=_default_order(ctx), key=e.key, val=e.val, op=e.op, conv=e.cls)
            u.extra['enum'] = True
            out.append(u)
        elif k == 'nested' and isinstance(e.cls, tuple) and e.cls and e.cls[0] == 'union':
            sizes = {union_member_size(m, ctx) for m in e.cls[1]}
            if len(sizes) == 1 and None not in sizes:
                u = El('u', w=sizes.pop(), order=_default_order(ctx), key=e.key, val=e.val, op=e.op)
                out.append(u)
            else:
                out.append(e)
        elif k == 'narray' and len(e.cls) == 1 and ctx.is_enum_factory(e.cls[0]) and not e.extra.get('derived'):
            n = ctx.byte_num(e.cls[0])
            fb = e.extra.get('fallback')
            fbn = ctx.byte_num(fb) if isinstance(fb, ClassV) else None
            if fb is None or isinstance(fb, ClassV) and fbn == n:
                item = El('u', w=n, order=_default_order(ctx), op=e.op, conv=e.cls[0])
                a = El('array', body=[item], size=e.size, key=e.key, val=e.val, op=e.op, unit='bytes')
                a.extra['enum'] = True
                out.append(a)
            else:
                out.append(e)
        elif k in ('alt', 'tryalt'):
            out.append(El(k, a=_expand(e.a, side, ctx), b=_expand(e.b, side, ctx), val=e.val, op=e.op))
        elif k == 'repeat':
            r = El('repeat', body=_expand(e.body, side, ctx), val=e.val, op=e.op)
            r.extra.update(e.extra)
            out.append(r)
        else:
            if k == 'raw' and 'subbody' in e.extra:
                e.extra['subbody'] = _expand(e.extra['subbody'], side, ctx)
            out.append(e)
    return out


def union_member_size(m, ctx):
    """wire size of a value of class m when it is a fixed width code (enum member or invalid-type wrapper)"""
    if m.enum_members is not None:
        pc = m.enum_params_class
        if isinstance(pc, ClassInfo) and pc.resolve('get_code_size'):
            r = ctx.interp.const_call(pc, 'get_code_size')
            return r if isinstance(r, int) else None
        return None
    if m.resolve('get_byte_num') is not None and not m.abstract_methods:
        r = ctx.interp.const_call(m, 'get_byte_num')
        return r if isinstance(r, int) else None
    return class_fixed_size(m, ctx)


def _default_order(ctx):
    return ctx.interp.default_byte_order()


def _index(els, flat, cond=False):
    for e in els:
        e.pos = len(flat)
        e.conditional = cond
        flat.append(e)
        if e.kind in ('alt', 'tryalt'):
            _index(e.a, flat, True)
            _index(e.b, flat, True)
        elif e.kind == 'repeat':
            _index(e.body, flat, True)
        elif e.kind == 'raw' and 'subbody' in e.extra:
            _index(e.extra['subbody'], flat, cond)


# -- affine expressions --------------------------------------------------------------------

def affine(v, atom):
    """Return (const, {atom_key: coeff}) if ``v`` is affine over atoms recognised by ``atom(v)``
    (which returns a hashable key or None), else None."""
    if isinstance(v, bool):
        return None
    if isinstance(v, int):
        return (v, {})
    k = atom(v)
    if k is not None:
        return (0, {k: 1})
    if isinstance(v, Sym):
        if v.op in ('add', 'sub') and len(v.args) == 2:
            a, b = affine(v.args[0], atom), affine(v.args[1], atom)
            if a is None or b is None:
                return None
            sign = 1 if v.op == 'add' else -1
            d = dict(a[1])
            for kk, c in b[1].items():
                d[kk] = d.get(kk, 0) + sign * c
            return (a[0] + sign * b[0], {kk: c for kk, c in d.items() if c})
        if v.op == 'mul' and len(v.args) == 2:
            a, b = affine(v.args[0], atom), affine(v.args[1], atom)
            if a is None or b is None:
                return None
            if not a[1]:
                return (a[0] * b[0], {kk: c * a[0] for kk, c in b[1].items()})
            if not b[1]:
                return (a[0] * b[0], {kk: c * b[0] for kk, c in a[1].items()})
            return None
        if v.op == 'int' and len(v.args) == 1:
            return affine(v.args[0], atom)
        if v.op in ('div', 'floordiv') and len(v.args) == 2 and v.args[1] == 1:
            return affine(v.args[0], atom)
    return None


def fixed_size(e, ctx):
    k = e.kind
    if k in ('u', 'flags', 'ts', 'const'):
        return e.w if isinstance(e.w, int) else None
    if k == 'raw' and isinstance(e.size, int):
        return e.size
    if k == 'mpint' and isinstance(e.size, int):
        return e.size
    if k == 'nested':
        c = e.cls.cls if isinstance(e.cls, ClassV) else e.cls
        if isinstance(c, ClassInfo):
            return class_fixed_size(c, ctx)
    if k == 't:string':
        v = e.extra.get('targs', {}).get('value')
        return len(v) if isinstance(v, str) else None
    return None


def class_fixed_size(c, ctx, _stack=()):
    if c in _stack:
        return None
    if ctx.is_enum_factory(c):
        return ctx.byte_num(c)
    try:
        cn = ctx.canon(c, 'parse')
    except Exception:      # pylint: disable=broad-except
        return None
    if cn is None:
        return None
    total = 0
    for e in cn.elements:
        s = fixed_size(e, ctx)
        if s is None:
            return None
        total += s
    return total


def _links_parse(c, ctx):
    # position of the element defining each key (latest definition before use is what FieldV.op identifies)
    by_op = {}
    for e in c.flat:
        if e.kind == 'u' and e.op is not None and e.key is not None:
            by_op[(id(e.op), e.key)] = e
    ops_size = {}

    def atom(v):
        if isinstance(v, FieldV):
            return ('field', id(v.op), v.key)
        if isinstance(v, Sym) and v.op in ('bytes', 'int', 'bytearray') and len(v.args) == 1:
            return atom(v.args[0])
        return None

    def plen_const(v):
        """Fold P.parsed_length@n to a constant when the first n ops are of fixed size."""
        if isinstance(v, Sym) and v.op == 'plen':
            p, n = v.args
            total = 0
            for op in p.ops[:n]:
                el = [x for x in c.flat if x.op is op]
                if not el:
                    return None
                s = 0
                for x in el:
                    fs = fixed_size(x, ctx)
                    if fs is None:
                        return None
                    s += fs
                total += s
            return total
        return None

    def fold(v):
        if isinstance(v, Sym):
            pc = plen_const(v)
            if pc is not None:
                return pc
            if v.op in ('add', 'sub', 'mul', 'int', 'div', 'floordiv'):
                return Sym(v.op, *[fold(a) for a in v.args])
        return v

    for e in c.flat:
        if e.kind == 'u' and 'lp_body' in e.extra:
            e.link = ('bytes', 0, list(e.extra['lp_body']))
    for e in c.flat:
        if e.kind in ('raw', 'narray', 'mpint', 'array') and e.size is not None and not isinstance(e.size, (int, str)):
            size = fold(e.size)
            unit = 'bytes'
            scale = 1
            if e.kind == 'array' and e.extra.get('unit') == 'count':
                unit = 'count'
                # count == int(F / item_size)  ->  F counts bytes
                item_w = e.body[0].w
                if isinstance(size, Sym) and size.op == 'int' and isinstance(size.args[0], Sym) and \
                        size.args[0].op in ('div', 'floordiv') and size.args[0].args[1] == item_w:
                    size = size.args[0].args[0]
                    unit = 'bytes'
            af = affine(size, atom)
            e.size_affine = af
            if af is None or len(af[1]) != 1:
                continue
            (k, coeff), = af[1].items()
            if coeff != 1:
                continue
            src = by_op.get((k[1], k[2]))
            if src is None:
                continue
            link = _norm_unit(unit, -af[0], [e])
            if getattr(src, 'link', None) is None:
                src.link = link
            else:
                src.link2 = link
    # a sub-parser created over the window INPUT[lo:hi]: the field that hi - lo is affine in governs everything that
    # sub-parser reads (VectorString: uint32 length, then a text parser over exactly that many bytes)
    windows = {}
    for e in c.flat:
        t = getattr(e.op, 'target', None) if e.op is not None else None
        rel = getattr(t, 'rel', None)
        if rel and rel[0] == 'window' and e.kind not in ('alt', 'tryalt'):
            windows.setdefault(id(t), (t, []))[1].append(e)
    for t, els in windows.values():
        _, lo, hi = t.rel
        try:
            af = affine(fold(Sym('sub', hi, lo)), atom)
        except Exception:      # pylint: disable=broad-except
            af = None
        if af is None or len(af[1]) != 1:
            continue
        (k, coeff), = af[1].items()
        src = by_op.get((k[1], k[2]))
        if coeff != 1 or src is None or getattr(src, 'link', None) is not None:
            continue
        top = _top_level(els)
        src.link = ('bytes', -af[0], list(top))
    return c


def _unwrap_copy(v):
    """list(x) / tuple(x): a copy has the length of the original"""
    while isinstance(v, Sym) and v.op in ('list', 'tuple') and len(v.args) == 1:
        v = v.args[0]
    return v


def _links_compose(c, ctx, lay):
    # map value identity -> elements
    by_val = {}
    for e in c.flat:
        if e.val is not None and e.kind in ('raw', 'array', 'narray', 'nested', 'text', 'repeat', 'flags', 'mpint', 'sshmpint'):
            by_val.setdefault(_vkey(e.val), []).append(e)
            if _unwrap_copy(e.val) is not e.val:
                by_val.setdefault(_vkey(_unwrap_copy(e.val)), []).append(e)
    by_comp = {}
    via = {}
    for e in c.flat:
        if e.op is not None and hasattr(e.op, 'target') and isinstance(getattr(e.op, 'target', None), ComposerV):
            by_comp.setdefault(e.op.target, []).append(e)
        for vo in (e.extra.get('via_ops') or []) if getattr(e, 'extra', None) else []:
            # bytes of another composer written through this composer's compose_raw / compose_bytes
            if vo is not None and isinstance(getattr(vo, 'target', None), ComposerV):
                by_comp.setdefault(vo.target, []).append(e)
                via.setdefault(id(e), []).append(vo)

    def positions_of_bytes(bv):
        """Elements produced by a byte value (BytesV)."""
        out = []
        for part in bv.parts:
            tag = part[0]
            if tag == 'composer':
                comp, n = part[1], part[2]
                ops = comp.ops[:n]
                for e in by_comp.get(comp, []):
                    if e.op in ops or any(vo in ops for vo in via.get(id(e), [])):
                        out.append(e)
            elif tag == 'repeat':
                for e in c.flat:
                    if e.kind == 'repeat' and e.op is part[1]:
                        out.append(e)
            elif tag == 'raw':
                for e in by_val.get(_vkey(part[1]), []):
                    out.append(e)
                if isinstance(part[1], BytesV):
                    out.extend(positions_of_bytes(part[1]))
            elif tag == 'nested':
                for e in by_val.get(_vkey(part[1]), []):
                    out.append(e)
        return out

    def atom(v):
        if isinstance(v, Sym) and v.op == 'len' and len(v.args) == 1:
            x = v.args[0]
            if isinstance(x, BytesV):
                els = positions_of_bytes(x)
                top = _top_level(els)
                return ('bytes', tuple(id(e) for e in top))
            if isinstance(x, Sym) and x.op == 'phi' and x.args and all(isinstance(a, (BytesV, bytes)) for a in x.args):
                # the length of "A or B" (an early return of the body against prefix + body): the elements of either alternative -
                # the ones only one alternative writes are optional elements of the layout and count when they are present
                els = []
                for a in x.args:
                    if isinstance(a, BytesV):
                        for e in positions_of_bytes(a):
                            if not any(e is y for y in els):
                                els.append(e)
                top = _top_level(els)
                if top:
                    return ('bytes', tuple(id(e) for e in top))
            els = by_val.get(_vkey(x)) or by_val.get(_vkey(_unwrap_copy(x)))
            if els:
                e = els[0]
                unit = 'count' if e.kind in ('array', 'narray', 'repeat') else 'bytes'
                if e.kind == 'text':
                    unit = 'chars'
                return (unit, (id(e),))
        return None

    byid = {id(e): e for e in c.flat}
    for e in c.flat:
        if e.kind == 'u' and 'lp_body' in e.extra:
            e.link = ('bytes', 0, list(e.extra['lp_body']))
            continue
        if e.kind != 'u' or e.val is None or is_const(e.val):
            continue
        af = affine(e.val, atom)
        e.val_affine = af
        if af is None or not af[1]:
            continue
        units = {k[0] for k in af[1]}
        if len(units) != 1:
            continue
        unit = units.pop()
        coeffs = set(af[1].values())
        targets = []
        for k in af[1]:
            for i in k[1]:
                if byid[i] not in targets:
                    targets.append(byid[i])
        if unit == 'count' and len(af[1]) == 1 and len(coeffs) == 1:
            # len(items) * item_width  ==  bytes(array) when the array items have that width
            coeff = list(coeffs)[0]
            tgt = targets[0]
            if tgt.kind == 'array' and tgt.body[0].w == coeff:
                e.link = ('bytes', af[0], targets)
            elif coeff == 1:
                e.link = _norm_unit('count', af[0], targets)
        elif coeffs == {1}:
            e.link = (unit, af[0], targets)
    return c


def _norm_unit(unit, const, targets):
    """A count of one-byte items is a byte count."""
    if unit == 'count' and len(targets) == 1 and targets[0].kind == 'array' and targets[0].body[0].w == 1:
        unit = 'bytes'
    return (unit, const, targets)


def _top_level(els):
    """Drop elements nested inside another selected element (repeat bodies...)."""
    ids = {id(e) for e in els}
    out = []
    for e in els:
        out.append(e)
    # remove children of selected repeats/alts
    drop = set()
    for e in els:
        if e.kind == 'repeat':
            for ch in _descendants(e.body):
                drop.add(id(ch))
        if e.kind in ('alt', 'tryalt'):
            for ch in _descendants(e.a) + _descendants(e.b):
                drop.add(id(ch))
    return [e for e in out if id(e) not in drop]


def _descendants(els):
    out = []
    for e in els:
        out.append(e)
        if e.kind == 'repeat':
            out.extend(_descendants(e.body))
        elif e.kind in ('alt', 'tryalt'):
            out.extend(_descendants(e.a))
            out.extend(_descendants(e.b))
    return out


def _vkey(v):
    if isinstance(v, SelfV):
        return ('self',) + v.path
    if isinstance(v, (BytesV, ListV, ObjV)):
        return ('id', id(v))
    try:
        hash(v)
        return v
    except TypeError:
        return ('id', id(v))


def dump_canon(c, ctx=None):
    out = []

    def rec(els, ind):
        pad = '  ' * ind
        for e in els:
            s = '%s[%d] %s' % (pad, e.pos, e.sig() if e.kind not in ('alt', 'tryalt', 'repeat') else e.kind)
            if e.key is not None:
                s += ' @%s' % e.key
            if e.val is not None and e.kind not in ('alt', 'tryalt'):
                s += ' = %s' % show(e.val)[:100]
            if getattr(e, 'link', None):
                u, k, ps = e.link
                s += '   LEN: %s%s of %s' % (u, ('%+d' % k) if k else '', sorted(getattr(x, 'pos', -1) for x in ps))
            out.append(s)
            if e.kind in ('alt', 'tryalt'):
                rec(e.a, ind + 1)
                out.append(pad + 'else')
                rec(e.b, ind + 1)
            elif e.kind == 'repeat':
                rec(e.body, ind + 1)
            elif e.kind == 'raw' and 'subbody' in e.extra:
                rec(e.extra['subbody'], ind + 1)
    rec(c.elements, 0)
    return out


def min_size(els, ctx, _stack=()):
    """Lower bound of the number of bytes a layout consumes/produces."""
    total = 0
    for e in els:
        k = e.kind
        if k in ('u', 'flags', 'ts', 'const'):
            total += e.w if isinstance(e.w, int) else 0
        elif k in ('raw', 'mpint'):
            total += e.size if isinstance(e.size, int) else 0
            if k == 'raw' and 'subbody' in e.extra and not isinstance(e.size, int):
                total += min_size(e.extra['subbody'], ctx, _stack)
        elif k == 'sshmpint':
            total += 4
        elif k == 'strz':
            total += 1
        elif k == 'nested':
            c = e.cls.cls if isinstance(e.cls, ClassV) else e.cls
            if isinstance(c, ClassInfo):
                total += class_min_size(c, ctx, _stack)
        elif k in ('alt', 'tryalt'):
            total += min(min_size(e.a, ctx, _stack), min_size(e.b, ctx, _stack))
        elif k == 't:string':
            v = e.extra.get('targs', {}).get('value')
            total += len(v) if isinstance(v, str) else 0
    return total


def class_min_size(c, ctx, _stack=()):
    if c in _stack or len(_stack) > 12:
        return 0
    if ctx.is_enum_factory(c):
        return ctx.byte_num(c) or 0
    if c.is_subclass_of('VariantParsableBase'):
        from .compare import variant_classes
        vs = variant_classes(c, ctx)
        if not vs:
            return 0
        return min(class_min_size(v, ctx, _stack + (c,)) for v in vs)
    f = c.resolve('_parse')
    if f is None or (f.abstract and ctx.interp.body_only_raises(f)):
        return 0
    try:
        cn = ctx.canon(c, 'parse')
    except Exception:      # pylint: disable=broad-except
        return 0
    if cn is None:
        return 0
    return min_size(cn.elements, ctx, _stack + (c,))
