"""E1 RepoModel: a resolved, purely static model of the cryptoparser package.

Parses every module of ``<repo>/cryptoparser`` (and, read-only, the installed
``cryptodatahub`` dependency: its ``.py`` files as AST, its ``*.json`` enum tables
as data) and builds:

* import / alias resolution (relative imports, re-exports, ``import a.b.c`` chains)
* class table with statically computed C3 MRO and method resolution
* abstractness of classes (unresolved ``abc.abstractmethod``s)
* attrs field tables (ordered the way attrs 21 orders them for ``attr.s``)
* enum tables (class style and the dependency's functional/JSON style)
* subclass index / leaf classes

Nothing is imported or executed.
"""
from __future__ import annotations

import ast
import glob
import json
import os
import re
import sys


class AnalysisError(Exception):
    """The analyser cannot decide (anchor vanished, construct not interpretable)."""


class ExtRef:
    """Reference to a symbol that lives outside the analysed sources."""
    __slots__ = ('dotted',)

    def __init__(self, dotted):
        self.dotted = dotted

    def __repr__(self):
        return 'Ext(%s)' % self.dotted

    def __eq__(self, other):
        return isinstance(other, ExtRef) and other.dotted == self.dotted

    def __hash__(self):
        return hash(('ext', self.dotted))


class ModuleRef:
    __slots__ = ('name',)

    def __init__(self, name):
        self.name = name

    def __repr__(self):
        return 'Module(%s)' % self.name


class VarRef:
    """A module level (or class level) variable bound to an expression."""
    __slots__ = ('module', 'name', 'node', 'cls')

    def __init__(self, module, name, node, cls=None):
        self.module = module
        self.name = name
        self.node = node
        self.cls = cls

    def __repr__(self):
        return 'Var(%s.%s)' % (self.module.name, self.name)


class EnumMember:
    __slots__ = ('cls', 'name')

    def __init__(self, cls, name):
        self.cls = cls
        self.name = name

    @property
    def value(self):
        return self.cls.enum_members[self.name]

    def __repr__(self):
        return '%s.%s' % (self.cls.name, self.name)

    def __eq__(self, other):
        return isinstance(other, EnumMember) and other.cls is self.cls and other.name == self.name

    def __hash__(self):
        return hash((self.cls.qualname, self.name))


class ParamsValue:
    """Static value of an enum member built from a params class: ``P(code=1, name='x')``
    or a JSON record of the dependency."""
    __slots__ = ('params_class', 'fields')

    def __init__(self, params_class, fields):
        self.params_class = params_class
        self.fields = fields

    def get(self, name, default=None):
        return self.fields.get(name, default)

    def __repr__(self):
        return 'Params(%s,%s)' % (getattr(self.params_class, 'name', self.params_class), self.fields)


FUNCTION_OWNER = {}


class FuncInfo:
    def __init__(self, module, cls, node):
        self.module = module
        self.cls = cls
        self.node = node
        if cls is not None:
            FUNCTION_OWNER[id(node)] = cls       # lets the statement evaluator find class constants named through self / cls
        self.name = node.name
        self.kind = 'function' if cls is None else 'method'
        self.abstract = False
        self.is_property = False
        self.property_setter = False
        self.attrs_role = None      # ('default', field) | ('validator', field)
        for dec in node.decorator_list:
            d = _dotted(dec)
            if d in ('classmethod',):
                self.kind = 'classmethod'
            elif d in ('staticmethod',):
                self.kind = 'staticmethod'
            elif d in ('property', 'abc.abstractproperty'):
                self.is_property = True
            elif d in ('abc.abstractmethod', 'abstractmethod'):
                self.abstract = True
            elif d and d.endswith('.setter'):
                self.property_setter = True
            elif d and d.endswith('.default'):
                self.attrs_role = ('default', d.split('.')[0])
            elif d and d.endswith('.validator'):
                self.attrs_role = ('validator', d.split('.')[0])

    @property
    def qualname(self):
        if self.cls is not None:
            return '%s.%s' % (self.cls.name, self.name)
        return self.name

    @property
    def construct(self):
        return '%s:%s' % (self.module.relpath, self.qualname)

    @property
    def params(self):
        a = self.node.args
        return [x.arg for x in a.posonlyargs + a.args]

    def __repr__(self):
        return 'Func(%s)' % self.construct


class AttrsField:
    def __init__(self, name, owner, call):
        self.name = name
        self.owner = owner            # ClassInfo that declares it
        self.call = call              # the attr.ib(...) Call node
        self.kw = {k.arg: k.value for k in call.keywords if k.arg}
        self.default_node = self.kw.get('default')
        if self.default_node is None and call.args:
            self.default_node = call.args[0]
        self.positional_validator = None
        self.factory_node = self.kw.get('factory')
        self.validator_node = self.kw.get('validator')
        self.converter_node = self.kw.get('converter')
        self.metadata_node = self.kw.get('metadata')
        init = self.kw.get('init')
        self.init = not (isinstance(init, ast.Constant) and init.value is False)
        self.default_method = None    # FuncInfo decorated with @x.default
        self.validator_methods = []   # FuncInfos decorated with @x.validator

    @property
    def has_default(self):
        return self.default_node is not None or self.factory_node is not None or self.default_method is not None

    @property
    def ctor_name(self):
        return self.name.lstrip('_')

    def __repr__(self):
        return 'Field(%s.%s)' % (self.owner.name, self.name)


class ClassInfo:
    def __init__(self, module, node, external=False):
        self.module = module
        self.node = node
        self.name = node.name if node is not None else None
        self.external = external
        self.methods = {}
        self.class_vars = {}          # name -> value node
        self.base_nodes = list(node.bases) if node is not None else []
        self.bases = []               # resolved: ClassInfo | ExtRef
        self.mro = None
        self.own_fields = []          # AttrsField declared in this class body
        self.attrs_decorated = False
        self.attrs_kw = {}
        self.decorators = []
        self.enum_members = None      # name -> static value, for enum classes
        self.enum_params_class = None
        self.metaclass_abc = False
        self._attrs_attrs = None
        self.json_path = None

    @property
    def qualname(self):
        return '%s.%s' % (self.module.name, self.name)

    @property
    def construct(self):
        return '%s:%s' % (self.module.relpath, self.name)

    def __repr__(self):
        return 'Class(%s)' % self.name

    # -- queries -----------------------------------------------------------------
    def resolve(self, name):
        """Method resolution through the static MRO (FuncInfo or None)."""
        for c in self.mro:
            if isinstance(c, ClassInfo) and name in c.methods:
                return c.methods[name]
        return None

    def resolve_var(self, name):
        for c in self.mro:
            if isinstance(c, ClassInfo) and name in c.class_vars:
                return VarRef(c.module, name, c.class_vars[name], c)
        return None

    def is_subclass_of(self, other):
        if isinstance(other, ClassInfo):
            return other in self.mro
        if isinstance(other, ExtRef):
            return other in self.mro
        if isinstance(other, str):
            return any((isinstance(c, ClassInfo) and c.name == other) or
                       (isinstance(c, ExtRef) and c.dotted == other) for c in self.mro)
        return False

    @property
    def abstract_methods(self):
        names = set()
        seen = set()
        for c in self.mro:
            if not isinstance(c, ClassInfo):
                continue
            for n, f in c.methods.items():
                if n in seen:
                    continue
                seen.add(n)
                if f.abstract:
                    names.add(n)
        return names

    @property
    def uses_abcmeta(self):
        return any(isinstance(c, ClassInfo) and c.metaclass_abc for c in self.mro) or \
            any(isinstance(c, ExtRef) and c.dotted in _ABC_EXT for c in self.mro)

    @property
    def is_abstract(self):
        """inspect.isabstract(): ABCMeta in effect and abstract methods left."""
        return self.uses_abcmeta and bool(self.abstract_methods)

    @property
    def is_enum(self):
        return any(isinstance(c, ExtRef) and c.dotted in ('enum.Enum', 'enum.IntEnum') for c in self.mro)

    @property
    def is_int_enum(self):
        return any(isinstance(c, ExtRef) and c.dotted == 'enum.IntEnum' for c in self.mro)

    def attrs_fields(self):
        """``__attrs_attrs__`` as attrs 21.x computes it for ``attr.s`` (collect_by_mro=False)."""
        if self._attrs_attrs is not None:
            return self._attrs_attrs
        if not self.attrs_decorated:
            res = []
            for c in self.mro[1:]:
                if isinstance(c, ClassInfo) and c.attrs_decorated:
                    res = c.attrs_fields()
                    break
            self._attrs_attrs = res
            return res
        own_names = {f.name for f in self.own_fields}
        taken = set(own_names)
        base_attrs = []
        for c in self.mro[1:]:
            if not isinstance(c, ClassInfo):
                continue
            for a in c.attrs_fields() if _has_attrs_attr(c) else []:
                if a.name in taken:
                    continue
                taken.add(a.name)
                base_attrs.append(a)
        self._attrs_attrs = base_attrs + list(self.own_fields)
        return self._attrs_attrs

    def has_attrs(self):
        return _has_attrs_attr(self)

    def field(self, name):
        for f in self.attrs_fields():
            if f.name == name or f.ctor_name == name:
                return f
        return None


def _has_attrs_attr(c):
    return any(isinstance(x, ClassInfo) and x.attrs_decorated for x in c.mro)


_ABC_EXT = {
    'collections.abc.MutableSequence', 'collections.MutableSequence', 'collections.abc.Mapping',
    'six.moves.collections_abc.Mapping', 'collections_abc.Mapping', 'abc.ABC',
}


class Module:
    def __init__(self, name, path, relpath, external):
        self.name = name
        self.path = path
        self.relpath = relpath
        self.external = external
        with open(path, 'rb') as f:
            self.source = f.read()
        self.tree = ast.parse(self.source, filename=path)
        if not external:
            # the normal form of sa/normalize.py: temporaries consumed by the next statement are written back into it
            from .normalize import normalize_module
            self.tree = normalize_module(self.tree, path)
        self.bindings = {}            # name -> ('import', modname) | ('from', modname, sym) | ('class', ClassInfo) | ('func', FuncInfo) | ('var', node)
        self.classes = {}
        self.functions = {}
        self.is_package = os.path.basename(path) == '__init__.py'

    def __repr__(self):
        return 'Mod(%s)' % self.name


def _dotted(node):
    if isinstance(node, ast.Name):
        return node.id
    if isinstance(node, ast.Attribute):
        b = _dotted(node.value)
        return None if b is None else b + '.' + node.attr
    if isinstance(node, ast.Call):
        return _dotted(node.func)
    return None


dotted = _dotted


def find_dependency(name='cryptodatahub'):
    env = os.environ.get('CRYPTODATAHUB_SRC')
    if env and os.path.isdir(env):
        return env
    cands = sorted(glob.glob('/venv/lib/python*/site-packages/%s' % name))
    for c in cands:
        if os.path.isdir(c):
            return c
    return None


class Model:
    def __init__(self, repo=None, package='cryptoparser', with_dependency=True):
        self.repo = repo or os.environ.get('VERIF_REPO', '/repo')
        self.package = package
        self.modules = {}
        self.classes_by_name = {}
        self.all_classes = []
        pkg_dir = os.path.join(self.repo, package)
        if not os.path.isdir(pkg_dir):
            raise AnalysisError('package directory %s not found' % pkg_dir)
        self._load_tree(pkg_dir, package, external=False, relroot=self.repo)
        self.dependency_dir = None
        if with_dependency:
            dep = find_dependency()
            if dep:
                self.dependency_dir = dep
                self._load_tree(dep, 'cryptodatahub', external=True, relroot=os.path.dirname(dep))
        for m in list(self.modules.values()):
            self._collect_bindings(m)
        for m in list(self.modules.values()):
            self._collect_functional_enums(m)
        for c in self.all_classes:
            self._resolve_bases(c)
        for c in self.all_classes:
            self._mro(c)
        for c in self.all_classes:
            self._enum_table(c)
        self.subclasses = {}
        for c in self.all_classes:
            for b in c.bases:
                if isinstance(b, ClassInfo):
                    self.subclasses.setdefault(b, []).append(c)

    # -- loading -------------------------------------------------------------------
    def _load_tree(self, directory, pkgname, external, relroot):
        for root, dirs, files in os.walk(directory):
            dirs[:] = sorted(d for d in dirs if d != '__pycache__')
            for fn in sorted(files):
                if not fn.endswith('.py'):
                    continue
                path = os.path.join(root, fn)
                rel = os.path.relpath(path, directory)
                parts = [pkgname] + rel[:-3].split(os.sep)
                if parts[-1] == '__init__':
                    parts = parts[:-1]
                modname = '.'.join(parts)
                relpath = os.path.relpath(path, relroot)
                try:
                    self.modules[modname] = Module(modname, path, relpath, external)
                except SyntaxError as e:
                    raise AnalysisError('cannot parse %s: %s' % (path, e))

    def _collect_bindings(self, m):
        def walk(body):
            for st in body:
                if isinstance(st, ast.Import):
                    for a in st.names:
                        if a.asname:
                            m.bindings[a.asname] = ('import', a.name)
                        else:
                            top = a.name.split('.')[0]
                            m.bindings[top] = ('import', top)
                elif isinstance(st, ast.ImportFrom):
                    base = st.module or ''
                    if st.level:
                        pkg = m.name.split('.')
                        if not m.is_package:
                            pkg = pkg[:-1]
                        pkg = pkg[:len(pkg) - (st.level - 1)]
                        base = '.'.join(pkg + ([st.module] if st.module else []))
                    for a in st.names:
                        m.bindings[a.asname or a.name] = ('from', base, a.name)
                elif isinstance(st, ast.ClassDef):
                    c = self._make_class(m, st)
                    m.bindings[st.name] = ('class', c)
                elif isinstance(st, (ast.FunctionDef, ast.AsyncFunctionDef)):
                    f = FuncInfo(m, None, st)
                    m.functions[st.name] = f
                    m.bindings[st.name] = ('func', f)
                elif isinstance(st, ast.Assign):
                    for t in st.targets:
                        if isinstance(t, ast.Name):
                            m.bindings[t.id] = ('var', st.value)
                elif isinstance(st, ast.Try):
                    walk(st.body)
                    for h in st.handlers:
                        # keep the first successful binding (try body) when both bind the same name
                        saved = dict(m.bindings)
                        walk(h.body)
                        for k, v in saved.items():
                            m.bindings[k] = v
                elif isinstance(st, ast.If):
                    walk(st.body)
                    walk(st.orelse)
        walk(m.tree.body)

    def _make_class(self, m, node):
        c = ClassInfo(m, node, external=m.external)
        m.classes[node.name] = c
        self.all_classes.append(c)
        self.classes_by_name.setdefault(node.name, []).append(c)
        for dec in node.decorator_list:
            d = _dotted(dec)
            c.decorators.append(d)
            if d in ('attr.s', 'attr.attrs', 'attr.define', 'attrs.define'):
                c.attrs_decorated = True
                if isinstance(dec, ast.Call):
                    c.attrs_kw = {k.arg: k.value for k in dec.keywords if k.arg}
            if d == 'six.add_metaclass' and isinstance(dec, ast.Call) and dec.args:
                if _dotted(dec.args[0]) in ('abc.ABCMeta', 'ABCMeta'):
                    c.metaclass_abc = True
        for kw in node.keywords:
            if kw.arg == 'metaclass' and _dotted(kw.value) in ('abc.ABCMeta', 'ABCMeta'):
                c.metaclass_abc = True
        for st in node.body:
            if isinstance(st, (ast.FunctionDef, ast.AsyncFunctionDef)):
                f = FuncInfo(m, c, st)
                if f.property_setter:
                    c.methods.setdefault(st.name + '.setter', f)
                    continue
                c.methods[st.name] = f
            elif isinstance(st, ast.Assign) and len(st.targets) == 1 and isinstance(st.targets[0], ast.Name):
                name = st.targets[0].id
                if isinstance(st.value, ast.Call) and _dotted(st.value.func) in ('attr.ib', 'attr.attrib', 'attr.field'):
                    c.own_fields.append(AttrsField(name, c, st.value))
                else:
                    c.class_vars[name] = st.value
            elif isinstance(st, ast.AnnAssign) and isinstance(st.target, ast.Name) and st.value is not None:
                c.class_vars[st.target.id] = st.value
            elif isinstance(st, ast.Assign) and len(st.targets) == 1 and isinstance(st.targets[0], (ast.Tuple, ast.List)) and \
                    all(isinstance(t, ast.Name) for t in st.targets[0].elts):
                # ``A, B, C = range(3)`` / ``X, Y = 1, 2``: one constant per name
                names = [t.id for t in st.targets[0].elts]
                v = st.value
                parts = None
                if isinstance(v, (ast.Tuple, ast.List)) and len(v.elts) == len(names):
                    parts = list(v.elts)
                elif isinstance(v, ast.Call) and isinstance(v.func, ast.Name) and v.func.id == 'range' and not v.keywords and \
                        all(isinstance(a, ast.Constant) and isinstance(a.value, int) for a in v.args):
                    vals = list(range(*[a.value for a in v.args]))
                    if len(vals) == len(names):
                        parts = [ast.copy_location(ast.Constant(value=x), v) for x in vals]
                if parts is not None:
                    for n_, part in zip(names, parts):
                        c.class_vars[n_] = part
        for f in c.methods.values():
            if f.attrs_role:
                role, fname = f.attrs_role
                for fld in c.own_fields:
                    if fld.name == fname:
                        if role == 'default':
                            fld.default_method = f
                        else:
                            fld.validator_methods.append(f)
        return c

    def _collect_functional_enums(self, m):
        """``X = EnumBase('X', EnumBase.get_json_records(ParamsClass))`` (dependency style)."""
        for name, b in list(m.bindings.items()):
            if b[0] != 'var':
                continue
            node = b[1]
            if not (isinstance(node, ast.Call) and len(node.args) == 2 and isinstance(node.args[0], ast.Constant)
                    and isinstance(node.args[0].value, str) and isinstance(node.args[1], ast.Call)):
                continue
            inner = node.args[1]
            if not (isinstance(inner.func, ast.Attribute) and inner.func.attr == 'get_json_records' and inner.args):
                continue
            fake = ast.ClassDef(name=name, bases=[node.func], keywords=[], body=[], decorator_list=[])
            ast.copy_location(fake, node)
            c = ClassInfo(m, fake, external=m.external)
            c.enum_params_class = inner.args[0]
            c.functional = True
            m.classes[name] = c
            self.all_classes.append(c)
            self.classes_by_name.setdefault(name, []).append(c)
            m.bindings[name] = ('class', c)

    # -- resolution ----------------------------------------------------------------
    def lookup_module_attr(self, modname, attr, _depth=0):
        """Resolve ``attr`` in module ``modname``: ClassInfo|FuncInfo|VarRef|ModuleRef|ExtRef."""
        if _depth > 20:
            return ExtRef(modname + '.' + attr)
        m = self.modules.get(modname)
        if m is None:
            sub = modname + '.' + attr
            if any(k == sub or k.startswith(sub + '.') for k in self.modules):
                return ModuleRef(sub)
            return ExtRef(modname + '.' + attr)
        b = m.bindings.get(attr)
        if b is None:
            sub = modname + '.' + attr
            if sub in self.modules or any(k.startswith(sub + '.') for k in self.modules):
                return ModuleRef(sub)
            return ExtRef(modname + '.' + attr)
        return self._binding_value(m, attr, b, _depth)

    def _binding_value(self, m, name, b, _depth=0):
        kind = b[0]
        if kind == 'class':
            return b[1]
        if kind == 'func':
            return b[1]
        if kind == 'var':
            # alias of a class? (re-export `X = Y`)
            node = b[1]
            if isinstance(node, (ast.Name, ast.Attribute)) and _depth < 20:
                r = self.resolve_expr(m, node, _depth=_depth + 1)
                if isinstance(r, (ClassInfo, FuncInfo, ExtRef, ModuleRef)):
                    return r
            return VarRef(m, name, node)
        if kind == 'import':
            modname = b[1]
            if modname in self.modules or any(k.startswith(modname + '.') for k in self.modules):
                return ModuleRef(modname)
            return ExtRef(modname)
        if kind == 'from':
            return self.lookup_module_attr(b[1], b[2], _depth + 1)
        raise AnalysisError('unknown binding kind %r' % (kind,))

    def resolve_name(self, m, name, _depth=0):
        b = m.bindings.get(name)
        if b is None:
            if name in _BUILTIN_NAMES:
                return ExtRef('builtins.' + name)
            return None
        return self._binding_value(m, name, b, _depth)

    def resolve_expr(self, m, node, cls=None, _depth=0):
        """Resolve a Name / dotted Attribute expression to a symbol, statically."""
        if isinstance(node, ast.Name):
            return self.resolve_name(m, node.id, _depth)
        if isinstance(node, ast.Attribute):
            base = self.resolve_expr(m, node.value, cls, _depth)
            return self.getattr_static(base, node.attr)
        return None

    def getattr_static(self, base, attr):
        if base is None:
            return None
        if isinstance(base, ModuleRef):
            return self.lookup_module_attr(base.name, attr)
        if isinstance(base, ExtRef):
            return ExtRef(base.dotted + '.' + attr)
        if isinstance(base, ClassInfo):
            if base.enum_members is not None and attr in base.enum_members:
                return EnumMember(base, attr)
            f = base.resolve(attr)
            if f is not None:
                return f
            v = base.resolve_var(attr)
            if v is not None:
                return v
            return None
        return None

    def _resolve_bases(self, c):
        for bn in c.base_nodes:
            r = self.resolve_expr(c.module, bn)
            if isinstance(r, ClassInfo):
                c.bases.append(r)
            elif isinstance(r, ExtRef):
                c.bases.append(ExtRef(_normalise_ext(r.dotted)))
            elif r is None:
                d = _dotted(bn)
                c.bases.append(ExtRef(_normalise_ext(d or '?')))
            else:
                c.bases.append(ExtRef(_normalise_ext(_dotted(bn) or '?')))

    def _mro(self, c, _stack=()):
        if c.mro is not None:
            return c.mro
        if c in _stack:
            raise AnalysisError('inheritance cycle at %s' % c.qualname)
        seqs = []
        for b in c.bases:
            if isinstance(b, ClassInfo):
                seqs.append(list(self._mro(b, _stack + (c,))))
            else:
                seqs.append(_ext_mro(b))
        seqs.append(list(c.bases))
        res = [c]
        seqs = [s for s in seqs if s]
        while seqs:
            for s in seqs:
                cand = s[0]
                if not any(cand in t[1:] for t in seqs):
                    break
            else:
                raise AnalysisError('inconsistent MRO for %s' % c.qualname)
            res.append(cand)
            for s in seqs:
                if s and s[0] == cand:
                    del s[0]
            seqs = [s for s in seqs if s]
        obj = ExtRef('builtins.object')
        res = [x for x in res if x != obj] + [obj]
        c.mro = res
        return res

    def _enum_table(self, c):
        if getattr(c, 'functional', False):
            self._load_json_enum(c)
            return
        if not c.is_enum:
            return
        members = {}
        for name, node in c.class_vars.items():
            if name.startswith('_'):
                continue
            members[name] = node       # evaluated lazily by consteval
        c.enum_members = members

    def _load_json_enum(self, c):
        pc = self.resolve_expr(c.module, c.enum_params_class)
        if not isinstance(pc, ClassInfo):
            raise AnalysisError('params class of functional enum %s not resolvable' % c.qualname)
        c.enum_params_class = pc
        cname = pc.name
        if not cname.endswith('Params'):
            raise AnalysisError('params class %s of %s does not end in Params' % (cname, c.qualname))
        parts = [p.lower() for p in re.split('([A-Z]+[^A-Z]*)', cname[:-6]) if p]
        path = os.path.join(os.path.dirname(pc.module.path), '-'.join(parts) + '.json')
        c.json_path = path
        if not os.path.isfile(path):
            raise AnalysisError('enum table %s for %s not found' % (path, c.qualname))
        with open(path, 'r', encoding='utf-8') as f:
            from collections import OrderedDict
            data = json.load(f, object_pairs_hook=OrderedDict)
        members = {}
        for name, params in data.items():
            fields = {k.replace('-', '_'): v for k, v in params.items() if not k.startswith('_')}
            members[name] = ParamsValue(pc, fields)
        c.enum_members = members

    # -- conveniences ----------------------------------------------------------------
    def cls(self, name, module=None):
        cands = self.classes_by_name.get(name, [])
        if module:
            cands = [c for c in cands if c.module.name == module or c.module.name.endswith('.' + module)]
        repo = [c for c in cands if not c.external]
        if len(repo) == 1:
            return repo[0]
        if len(cands) == 1:
            return cands[0]
        if not cands:
            raise AnalysisError('class %s not found (anchor vanished)' % name)
        raise AnalysisError('class name %s is ambiguous: %s' % (name, [c.qualname for c in cands]))

    def try_cls(self, name, module=None):
        try:
            return self.cls(name, module)
        except AnalysisError:
            return None

    def repo_classes(self):
        return [c for c in self.all_classes if not c.external]

    def repo_modules(self):
        return [m for m in self.modules.values() if not m.external]

    def all_subclasses(self, c):
        out, todo, seen = [], [c], set()
        while todo:
            x = todo.pop()
            for s in self.subclasses.get(x, []):
                if s not in seen:
                    seen.add(s)
                    out.append(s)
                    todo.append(s)
        return out

    def leaf_classes(self, base):
        """cryptoparser.common.utils.get_leaf_classes evaluated on the static subclass index."""
        def rec(b):
            subs = self.subclasses.get(b, [])
            if subs:
                res = []
                for s in subs:
                    res += rec(s)
                return res
            if not b.is_abstract:
                return [b]
            return []
        return rec(base)

    def functions(self, repo_only=True):
        for m in self.modules.values():
            if repo_only and m.external:
                continue
            for f in m.functions.values():
                yield f
            for c in m.classes.values():
                for f in c.methods.values():
                    yield f

    def is_parsable(self, c):
        return c.is_subclass_of('ParsableBaseNoABC')

    def concrete_parsables(self):
        res = []
        for c in self.repo_classes():
            if not self.is_parsable(c):
                continue
            p = c.resolve('_parse')
            q = c.resolve('compose')
            if p is None or q is None or p.abstract or q.abstract:
                continue
            if c.abstract_methods:
                continue
            res.append(c)
        return res


_BUILTIN_NAMES = set(dir(__builtins__)) if not isinstance(__builtins__, dict) else set(__builtins__)
_BUILTIN_NAMES |= {'int', 'str', 'bytes', 'bytearray', 'bool', 'float', 'list', 'dict', 'set', 'tuple', 'len',
                   'range', 'type', 'object', 'super', 'isinstance', 'issubclass', 'getattr', 'map', 'filter',
                   'sorted', 'reversed', 'enumerate', 'zip', 'min', 'max', 'sum', 'any', 'all', 'next', 'iter',
                   'ord', 'chr', 'hasattr', 'id', 'property', 'classmethod', 'staticmethod', 'frozenset',
                   'ValueError', 'TypeError', 'KeyError', 'IndexError', 'AttributeError', 'NotImplementedError',
                   'StopIteration', 'UnicodeError', 'UnicodeDecodeError', 'UnicodeEncodeError', 'OverflowError',
                   'Exception', 'RuntimeError', 'LookupError', 'ArithmeticError', 'ZeroDivisionError'}


def _normalise_ext(d):
    table = {
        'MutableSequence': 'collections.abc.MutableSequence',
        'collections_abc.Mapping': 'collections.abc.Mapping',
        'six.moves.collections_abc.Mapping': 'collections.abc.Mapping',
        'collections.abc.MutableSequence': 'collections.abc.MutableSequence',
        'collections.MutableSequence': 'collections.abc.MutableSequence',
        'builtins.object': 'builtins.object',
        'object': 'builtins.object',
        'builtins.Exception': 'builtins.Exception',
    }
    return table.get(d, d)


def _ext_mro(b):
    d = b.dotted
    chains = {
        'enum.IntEnum': ['enum.IntEnum', 'builtins.int', 'enum.Enum', 'builtins.object'],
        'enum.Enum': ['enum.Enum', 'builtins.object'],
        'builtins.object': ['builtins.object'],
    }
    if d in chains:
        return [ExtRef(x) for x in chains[d]]
    exc = EXCEPTION_PARENTS
    if d in exc:
        out = [d]
        while out[-1] in exc and exc[out[-1]]:
            out.append(exc[out[-1]])
        return [ExtRef(x) for x in out] + [ExtRef('builtins.object')]
    return [b, ExtRef('builtins.object')]


EXCEPTION_PARENTS = {
    'builtins.BaseException': None,
    'builtins.Exception': 'builtins.BaseException',
    'builtins.ArithmeticError': 'builtins.Exception',
    'builtins.OverflowError': 'builtins.ArithmeticError',
    'builtins.ZeroDivisionError': 'builtins.ArithmeticError',
    'builtins.AttributeError': 'builtins.Exception',
    'builtins.LookupError': 'builtins.Exception',
    'builtins.IndexError': 'builtins.LookupError',
    'builtins.KeyError': 'builtins.LookupError',
    'builtins.NotImplementedError': 'builtins.RuntimeError',
    'builtins.RuntimeError': 'builtins.Exception',
    'builtins.RecursionError': 'builtins.RuntimeError',
    'builtins.StopIteration': 'builtins.Exception',
    'builtins.TypeError': 'builtins.Exception',
    'builtins.ValueError': 'builtins.Exception',
    'builtins.UnicodeError': 'builtins.ValueError',
    'builtins.UnicodeDecodeError': 'builtins.UnicodeError',
    'builtins.UnicodeEncodeError': 'builtins.UnicodeError',
    'builtins.OSError': 'builtins.Exception',
    'builtins.MemoryError': 'builtins.Exception',
    'builtins.AssertionError': 'builtins.Exception',
    'struct.error': 'builtins.Exception',
    'binascii.Error': 'builtins.ValueError',
    'json.JSONDecodeError': 'builtins.ValueError',
    'decimal.DecimalException': 'builtins.ArithmeticError',
    'decimal.InvalidOperation': 'decimal.DecimalException',
}


_MODEL_CACHE = {}


def load_model(repo=None, with_dependency=True):
    repo = repo or os.environ.get('VERIF_REPO', '/repo')
    key = (repo, with_dependency)
    if key not in _MODEL_CACHE:
        _MODEL_CACHE[key] = Model(repo, with_dependency=with_dependency)
    return _MODEL_CACHE[key]


if __name__ == '__main__':
    mdl = load_model()
    rc = mdl.repo_classes()
    print('modules', len(mdl.repo_modules()), 'classes', len(rc), 'concrete parsables', len(mdl.concrete_parsables()))
    if len(sys.argv) > 1:
        c = mdl.cls(sys.argv[1])
        print([getattr(x, 'name', x) for x in c.mro])
        print([f.name for f in c.attrs_fields()])
        print('abstract', c.is_abstract, sorted(c.abstract_methods))
        if c.enum_members:
            print(list(c.enum_members.items())[:5])
