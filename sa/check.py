"""Entry point: ``python3 -m sa.check <ID> --tier quick|thorough [--replay file]`` (cwd /verif)."""
from __future__ import annotations

import argparse
import importlib
import os
import sys


def main(argv=None):
    ap = argparse.ArgumentParser()
    ap.add_argument('prop')
    ap.add_argument('--tier', default=os.environ.get('VERIF_TIER') or 'quick', choices=['quick', 'thorough'])
    ap.add_argument('--replay', default=None)
    a = ap.parse_args(argv)
    prop = a.prop.upper()
    try:
        mod = importlib.import_module('sa.props.%s' % prop.lower())
    except ImportError as e:
        print('ANALYSIS-ERROR property=%s no checker module: %s' % (prop, e))
        return 2
    from .core import run
    return run(prop, a.tier, mod, a.replay)


if __name__ == '__main__':
    try:
        code = main()
    except SystemExit:
        raise
    except BaseException as e:      # pylint: disable=broad-except
        import traceback
        traceback.print_exc()
        print('ANALYSIS-ERROR internal: %r' % (e,))
        code = 2
    sys.stdout.flush()
    sys.exit(code)
