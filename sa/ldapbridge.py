"""The LDAP bridge (LDAPMessageParsableBase._parse_asn1 and the helper methods it calls) evaluated from its own statements
(sa.miniexec) against a model of the ASN.1 library's documented behaviour: ``load`` raises ValueError with the
"Insufficient data" message (template read from the asn1crypto source) for a short input and with another message for a
malformed one, decodes lazily (errors of inner fields surface at ``.native`` as ValueError / KeyError), and returns the
loaded object.  Shared by C02.R4 (eager decoding), C03.R10 (indefinite length refused before the decoder sees the
input), C04.R1 / C04.R6 (the count handed to NotEnoughData is requested - available for every magnitude)."""
from __future__ import annotations

import ast
import glob
import re

_CACHE = {}


def asn1_template():
    for path in glob.glob('/venv/lib/python*/site-packages/asn1crypto/parser.py'):
        with open(path) as fh:
            for st in ast.parse(fh.read()).body:
                if isinstance(st, ast.Assign) and any(isinstance(t, ast.Name) and t.id == '_INSUFFICIENT_DATA_MESSAGE' for t in st.targets) and \
                        isinstance(st.value, ast.Constant):
                    return st.value.value
    return None


def evaluate(ctx):
    """{'evaluated': bool, 'why': str, 'runs': n, 'problems': {aspect: text}} with aspects 'count', 'eager', 'indefinite',
    'other', 'ok'"""
    if 'r' in _CACHE:
        return _CACHE['r']
    from .miniexec import Evaluator, ExcVal, Native, NativeError, Obj, Raised, Unsupported, class_call_hook, exception_values
    out = {'evaluated': False, 'why': '', 'runs': 0, 'problems': {}}
    _CACHE['r'] = out
    c = ctx.model.try_cls('LDAPMessageParsableBase')
    f = c.methods.get('_parse_asn1') if c is not None else None
    template = asn1_template()
    if f is None or template is None:
        out['why'] = 'LDAPMessageParsableBase._parse_asn1 or the asn1crypto message template not found'
        return out

    class ValueError_(NativeError):
        pass
    ValueError_.__name__ = 'ValueError'

    class KeyError_(NativeError):
        pass
    KeyError_.__name__ = 'KeyError'
    state = {}

    class Message(Native):
        def __init__(self, fail):
            self.fail = fail
            self.decoded = False

        @property
        def native(self):
            self.decoded = True
            if self.fail is not None:
                raise self.fail
            return {'messageID': 1}

    class Loader(Native):
        def load(self, data, *a, **k):
            state['load_calls'] = state.get('load_calls', 0) + 1
            state['load_arg'] = bytes(data)
            if state['load_error'] is not None:
                raise state['load_error']
            state['message'] = Message(state['native_error'])
            return state['message']
    loader = Loader()
    exc = exception_values('NotEnoughData', 'InvalidValue', 'InvalidType', 'TooMuchData')

    def names(name):
        if name == 'LDAPMessage':
            return loader
        if name == 'cls':
            return 'cls'
        raise Unsupported('free name %s' % name)
    hook = class_call_hook(c, exc, ctx.model)
    definite = bytes([0x30, 0x0c, 0x02, 0x01, 0x01]) + b'\x77' * 9
    indefinite = bytes([0x30, 0x80, 0x02, 0x01, 0x01]) + b'\x77' * 7 + b'\x00\x00'
    scenarios = [('ok', definite, None, None, 'return')]
    for requested, available in ((2, 0), (2, 1), (9, 8), (10, 9), (17, 12), (31, 30), (127, 99), (128, 100), (1000, 999), (70000, 65535), (123456, 12)):
        scenarios.append(('count', definite, ValueError_(template % (requested, available)), None, ('NotEnoughData', requested - available)))
    scenarios.append(('other', definite, ValueError_('Unknown element - context class, constructed method, tag 9'), None, ('InvalidValue', None)))
    scenarios.append(('eager', definite, None, ValueError_('Error parsing asn1crypto.core.Integer - tag should have been 2, but 4 was found'), ('InvalidValue', None)))
    scenarios.append(('eager', definite, None, KeyError_(80), ('InvalidValue', None)))
    scenarios.append(('eager', definite, None, ValueError_(template % (40, 14)), ('NotEnoughData', 26)))
    scenarios.append(('indefinite', indefinite, None, None, ('InvalidValue', 'no-load')))
    params = [a.arg for a in f.node.args.args if a.arg not in ('self', 'cls')]
    try:
        for aspect, data, load_error, native_error, want in scenarios:
            out['runs'] += 1
            state.clear()
            state.update(load_error=load_error, native_error=native_error)
            try:
                got = Evaluator({params[0]: bytearray(data), 'cls': 'cls'}, hook, names).function(f.node)
                raised = None
            except Raised as e:
                got, raised = None, e
            if want == 'return':
                if raised is not None or got is not state.get('message'):
                    out['problems'].setdefault(aspect, 'a well formed message is not returned (%s)' % (raised.what if raised else got))
                elif state.get('load_arg') != data:
                    out['problems'].setdefault(aspect, 'the decoder is not handed the whole input')
                continue
            name, arg = want
            if raised is None:
                if aspect == 'eager':
                    out['problems'].setdefault(aspect, 'the loaded message is returned without its inner fields having been decoded inside the handler '
                                               '(a %s raised by .native later would escape)' % type(native_error).__name__)
                else:
                    out['problems'].setdefault(aspect, 'the input is accepted although the decoder %s' % ('was not to be called' if aspect == 'indefinite' else 'failed'))
                continue
            rname = raised.value.name if isinstance(raised.value, ExcVal) else raised.what.split('(')[0].split('.')[-1]
            if rname != name:
                out['problems'].setdefault(aspect, '%s is raised where %s is due (%s)' % (rname, name, {
                    'count': 'short input', 'other': 'malformed input', 'eager': 'error of an inner field', 'indefinite': 'indefinite length form'}[aspect]))
                continue
            if name == 'NotEnoughData':
                v = raised.value
                n = (v.args[0] if v.args else v.kwargs.get('bytes_needed')) if isinstance(v, ExcVal) else None
                if n != arg:
                    out['problems'].setdefault('count', 'the decoder asked for %s more bytes, NotEnoughData carries %r' % (arg, n))
            if arg == 'no-load' and state.get('load_calls'):
                out['problems'].setdefault(aspect, 'the indefinite length form reaches the decoder before it is refused')
    except Unsupported as e:
        out['why'] = str(e)
        return out
    out['evaluated'] = True
    return out


def evaluate_messages(ctx, oid):
    """the two StartTLS message parsers (with the helper methods they call; ``_parse_asn1`` replaced by a loaded message
    model) evaluated over: every protocolOp alternative of a small family, request names equal / not equal to the StartTLS
    OID, message ids 1 / 2 / 70000, controls present or absent, result codes.  Returns
    {'evaluated', 'why', 'runs', 'problems': {aspect: text}} with aspects 'tag[<class>]', 'request-name', 'keys[<class>]',
    'length[<class>]', 'accepts[<class>]'"""
    key = ('m', oid)
    if key in _CACHE:
        return _CACHE[key]
    from .miniexec import Evaluator, ExcVal, Native, NativeError, Obj, Raised, Unsupported, class_call_hook, exception_values
    out = {'evaluated': False, 'why': '', 'runs': 0, 'problems': {}}
    _CACHE[key] = out

    class KeyError_(NativeError):
        pass
    KeyError_.__name__ = 'KeyError'

    class Fields(Native):
        def __init__(self, values):
            self.values = values

        def __getitem__(self, k):
            if k not in self.values:
                raise KeyError_(k)
            return Obj(native=self.values[k])

        def __contains__(self, k):
            return k in self.values

    class Choice(Native):
        def __init__(self, name, values):
            self.name, self.chosen = name, Fields(values)
            self.native = dict(values)

    class Message(Native):
        def __init__(self, message_id, op, values, controls, size):
            self.fields = {'messageID': Obj(native=message_id), 'protocolOp': Choice(op, values)}
            if controls:
                self.fields['controls'] = Obj(native=[{'controlType': b'1.2.3', 'criticality': False}])
            self.size = size

        def __getitem__(self, k):
            if k not in self.fields:
                raise KeyError_(k)
            return self.fields[k]

        def dump(self, *a, **k):
            if a or k:
                raise Unsupported('dump() with arguments')
            return b'\x30' * self.size
    state = {}
    exc = exception_values('NotEnoughData', 'InvalidValue', 'InvalidType', 'TooMuchData')
    other_oid = b'1.3.6.1.4.1.4203.1.11.3'
    families = {
        'bindRequest': {'version': 3, 'name': b'', 'authentication': None},
        'bindResponse': {'resultCode': 'success', 'matchedDN': b'', 'diagnosticMessage': b''},
        'searchRequest': {'baseObject': b''},
        'extendedReq': {'requestName': oid.encode('ascii')},
        'extendedResp': {'resultCode': 'success', 'matchedDN': b'', 'diagnosticMessage': b''},
        'unbindRequest': {},
    }
    for cname, want_op in (('LDAPExtendedRequestStartTLS', 'extendedReq'), ('LDAPExtendedResponseStartTLS', 'extendedResp')):
        c = ctx.model.try_cls(cname)
        f = c.resolve('_parse') if c is not None else None
        if f is None:
            out['why'] = '%s._parse not found' % cname
            return out

        def extra(n, ev, cname=cname):
            d = ast.unparse(n.func)
            if d == 'cls._parse_asn1':
                return state['message']
            if d in (cname, 'cls'):
                return ('object', cname, tuple(ev.ev(a) for a in n.args), tuple(sorted((k.arg, ev.ev(k.value)) for k in n.keywords if k.arg)))
            return exc(n, ev)
        hook = class_call_hook(c, extra, ctx.model)
        params = [a.arg for a in f.node.args.args if a.arg not in ('self', 'cls')]
        try:
            for op, values in families.items():
                variants = [dict(values)]
                if op == 'extendedReq':
                    variants.append({'requestName': other_oid})
                if op == 'extendedResp':
                    variants += [dict(values, resultCode=rc) for rc in ('protocolError', 'unavailable', 'operationsError')]
                for vals in variants:
                    for message_id, controls, size in ((1, False, 14), (2, True, 40), (70000, False, 300)):
                        out['runs'] += 1
                        state['message'] = Message(message_id, op, vals, controls, size)
                        try:
                            got = Evaluator({params[0]: b'\x30\x0c', 'cls': 'cls'}, hook, None).function(f.node)
                            raised = None
                        except Raised as e:
                            got, raised = None, e
                        rname = None
                        if raised is not None:
                            rname = raised.value.name if isinstance(raised.value, ExcVal) else raised.what.split('(')[0].split('.')[-1]
                        right = op == want_op and (op != 'extendedReq' or vals['requestName'] == oid.encode('ascii'))
                        if rname == 'KeyError':
                            out['problems'].setdefault('keys[%s]' % cname, 'KeyError escapes for a %s message (%s)' % (op, raised.what[:80]))
                        elif right:
                            if raised is not None:
                                out['problems'].setdefault('accepts[%s]' % cname, 'a well formed %s (message id %d%s) is refused with %s' % (
                                    op, message_id, ', with controls' if controls else '', rname))
                            elif not (isinstance(got, tuple) and len(got) == 2 and got[1] == size):
                                out['problems'].setdefault('length[%s]' % cname, 'the reported length is %r for a message of %d bytes' % (
                                    got[1] if isinstance(got, tuple) and len(got) == 2 else got, size))
                            elif op == 'extendedResp' and vals['resultCode'] not in repr(got[0]):
                                out['problems'].setdefault('accepts[%s]' % cname, 'the result code %s is not handed to the object (%r)' % (vals['resultCode'], got[0]))
                        else:
                            if raised is None:
                                if op == want_op:
                                    out['problems'].setdefault('request-name', 'an extended request named %s is returned as a StartTLS request' % other_oid.decode())
                                else:
                                    out['problems'].setdefault('tag[%s]' % cname, 'a %s message is returned as %s' % (op, cname))
                            elif rname != 'InvalidType':
                                out['problems'].setdefault('tag[%s]' % cname, 'a %s message is refused with %s instead of InvalidType' % (op, rname))
        except Unsupported as e:
            out['why'] = '%s: %s' % (cname, e)
            return out
    out['evaluated'] = True
    return out


def composed_messages(ctx):
    """what ``compose`` of the two StartTLS classes hands to the ASN.1 encoder: {class name: the mapping given to ``LDAPMessage``}
    (evaluated from the method's own statements, helper methods through the class chain; the encoder is a model that keeps the
    mapping), or {} for a class that leaves the evaluable subset"""
    from .miniexec import Evaluator, Native, Raised, Unsupported, class_call_hook, EnumVal
    out = {}
    for cname in ('LDAPExtendedRequestStartTLS', 'LDAPExtendedResponseStartTLS'):
        c = ctx.model.try_cls(cname)
        f = c.resolve('compose') if c is not None else None
        if f is None or not isinstance(getattr(f, 'node', None), ast.FunctionDef):
            continue
        seen = {}

        class Encoded(Native):
            def dump(self, *a, **k):
                return b'\x30\x00'

        def extra(n, ev, seen=seen):
            if ast.unparse(n.func) == 'LDAPMessage' and len(n.args) == 1:
                seen['message'] = ev.ev(n.args[0])
                return Encoded()
            return NotImplemented

        class Me(Native):
            _repo_class = c
        me = Me()
        rc = ctx.model.try_cls('LDAPResultCode')
        if rc is not None and rc.enum_members:
            me.result_code = EnumVal.of(rc, next(iter(rc.enum_members)))
        hook = class_call_hook(c, extra, ctx.model)
        try:
            Evaluator({'self': me}, hook, hook.name_hook_for(f.module, None)).function(f.node)
        except (Unsupported, Raised, AttributeError, TypeError, KeyError):
            continue
        if isinstance(seen.get('message'), dict):
            out[cname] = seen['message']
    return out
