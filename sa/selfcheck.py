"""setup_cmd: validates that the analyser imports, its JSON tables parse and the model of /repo loads."""
from __future__ import annotations

import glob
import json
import os
import sys

HERE = os.path.dirname(os.path.abspath(__file__))


def main():
    ok = True
    for path in glob.glob(os.path.join(HERE, '*.json')) + glob.glob(os.path.join(HERE, 'specs', '*.json')) + \
            [os.path.join(os.path.dirname(HERE), 'known_findings.json')]:
        try:
            with open(path) as f:
                json.load(f)
        except Exception as e:      # pylint: disable=broad-except
            print('selfcheck: %s does not parse: %s' % (path, e))
            ok = False
    from .model import load_model
    m = load_model()
    n = len(m.repo_classes())
    print('selfcheck: model loaded, %d classes, %d concrete parsables, dependency=%s' % (
        n, len(m.concrete_parsables()), m.dependency_dir))
    os.makedirs(os.path.join(os.path.dirname(HERE), 'evidence'), exist_ok=True)
    return 0 if ok and n > 100 else 2


if __name__ == '__main__':
    sys.exit(main())
