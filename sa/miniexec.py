"""Tabulation of small pure arithmetic helpers straight from their syntax tree.

Some obligations are about a handful of integer statements (how many 32 bit words an mpint needs, how a checksum folds
its carry, which branch a byte order takes).  They are decided by evaluating the *statements of the function as written
in /repo* over an exhaustive finite domain of their inputs with this evaluator: a deliberately tiny interpreter for
straight-line integer code (names, constants, arithmetic, comparisons, if/while/for over range, len/int/min/max,
int.bit_length, indexing of bytes).  Nothing of the repository is imported or run; anything outside the subset raises
Unsupported, which the rules report as "no longer decidable" (never as a pass).

A call the caller wants to observe is intercepted through ``hook(call_node, args, kwargs, ev)``: it may return a value,
or raise Stop(value) to end the evaluation there (e.g. at the call that consumes the computed quantity).
"""
from __future__ import annotations

import ast
import operator


class Unsupported(Exception):
    pass


class Stop(Exception):
    def __init__(self, value):
        Exception.__init__(self)
        self.value = value


class Raised(Exception):
    """the evaluated code executed a ``raise`` statement (``what`` = source text of the raised expression)"""

    def __init__(self, what, value=None):
        Exception.__init__(self, what)
        self.what = what
        self.value = value          # an ExcVal when the raised expression evaluated to one (rule supplied exception model)


class NativeError(Exception):
    """base of exceptions a rule's model objects raise towards the evaluated code; handlers match them by class name"""


class _Break(Exception):
    pass


class ExcVal:
    """an exception *object* built by the evaluated code (``NotEnoughData(n)``): rules that care about the arguments let
    their hook build one (exception_values) - a raise of such an object carries it in Raised.value"""

    def __init__(self, name, *args, **kwargs):
        self.name, self.args, self.kwargs = name, args, kwargs

    def __repr__(self):
        return '%s(%s)' % (self.name, ', '.join([repr(a) for a in self.args] + ['%s=%r' % kv for kv in sorted(self.kwargs.items())]))


# parameters of the exceptions of the package (cryptodatahub.common.exception.InvalidValue, cryptoparser.common.exception) that
# become attributes of the exception object
EXCEPTION_FIELDS = {'InvalidValue': ('value',), 'NotEnoughData': ('bytes_needed',), 'TooMuchData': ('bytes_needed',)}


def exception_values(*names):
    """hook fragment: calls of the named exception classes evaluate to ExcVal objects"""
    def hook(n, ev):
        d = ast.unparse(n.func).split('.')[-1]
        if d in names and isinstance(n.func, (ast.Name, ast.Attribute)):
            return ExcVal(d, *[ev.ev(a) for a in n.args], **{k.arg: ev.ev(k.value) for k in n.keywords if k.arg})
        return NotImplemented
    return hook


class _Continue(Exception):
    pass


class _Return(Exception):
    def __init__(self, value):
        Exception.__init__(self)
        self.value = value


BIN = {ast.Add: operator.add, ast.Sub: operator.sub, ast.Mult: operator.mul, ast.FloorDiv: operator.floordiv, ast.Div: operator.truediv,
       ast.Mod: operator.mod, ast.Pow: operator.pow, ast.BitAnd: operator.and_, ast.BitOr: operator.or_,
       ast.BitXor: operator.xor, ast.LShift: operator.lshift, ast.RShift: operator.rshift}
CMP = {ast.Eq: operator.eq, ast.NotEq: operator.ne, ast.Lt: operator.lt, ast.LtE: operator.le, ast.Gt: operator.gt,
       ast.GtE: operator.ge, ast.Is: operator.is_, ast.IsNot: operator.is_not,
       ast.In: lambda a, b: a in b, ast.NotIn: lambda a, b: a not in b}
BUILTINS = {'len': len, 'int': int, 'bool': bool, 'min': min, 'max': max, 'abs': abs, 'range': range, 'bytes': bytes,
            'bytearray': bytearray, 'reversed': lambda x: list(reversed(x)), 'list': list, 'sum': sum, 'divmod': divmod}
METHODS = {(int, 'bit_length'), (bytes, 'lstrip'), (bytes, 'rstrip'), (bytearray, 'lstrip'), (bytearray, 'rstrip'),
           (list, 'append'), (str, 'join'), (str, 'lower'), (str, 'upper'), (str, 'encode'), (bytes, 'join'),
           (bytes, 'decode'), (bytes, 'hex'), (str, 'format')}
for _m in ('items', 'keys', 'values', 'get', 'pop', 'setdefault', 'update', 'copy', 'clear', 'popitem'):
    METHODS.add((dict, _m))
for _m in ('insert', 'extend', 'clear', 'reverse', 'pop', 'remove', 'index', 'count', 'copy', 'sort'):
    METHODS.add((list, _m))
BUILTINS['next'] = next
BUILTINS['slice'] = slice
BUILTINS['object'] = lambda: Obj(sentinel=True)
BUILTINS['iter'] = iter
BUILTINS['enumerate'] = lambda x, start=0: list(enumerate(x, start))
def _str(*a, **k):
    if a and isinstance(a[0], Native) and type(a[0]).__str__ is object.__str__:
        raise Unsupported('str() of a model object')
    return str(*a, **k)


BUILTINS['str'] = _str
BUILTINS['tuple'] = tuple
BUILTINS['set'] = set
BUILTINS['dict'] = dict
BUILTINS['zip'] = lambda *a: list(zip(*a))
BUILTINS['frozenset'] = frozenset
BUILTINS['map'] = lambda f, *seqs: [f(*a) for a in zip(*[list(x) for x in seqs])]
BUILTINS['filter'] = lambda f, seq: [x for x in list(seq) if (f(x) if f is not None else x)]
BUILTINS['isinstance'] = lambda v, t: isinstance(v, t) if isinstance(t, (type, tuple)) and all(isinstance(x, type) for x in (t if isinstance(t, tuple) else (t,))) else (_ for _ in ()).throw(Unsupported('isinstance with a model class'))
TYPE_METHODS = {('dict', 'fromkeys'): dict.fromkeys}
import functools as _functools
import operator as _operator
# pure standard library functions that may appear by their dotted name (as a value or called)
DOTTED = {'six.string_types': (str,), 'six.integer_types': (int,), 'six.binary_type': bytes, 'six.text_type': str, 'operator.or_': _operator.or_, 'operator.and_': _operator.and_, 'operator.xor': _operator.xor, 'operator.add': _operator.add,
          'operator.mul': _operator.mul, 'operator.sub': _operator.sub, 'operator.lshift': _operator.lshift, 'operator.rshift': _operator.rshift}


def _reduce(fn, seq, *init):
    if not any(fn is f for f in DOTTED.values()):
        raise Unsupported('functools.reduce with a function outside the operator table')
    return _functools.reduce(fn, list(seq), *init)


def _ensure_binary(v, encoding='utf-8', errors='strict'):
    if isinstance(v, str):
        return v.encode(encoding, errors)          # UnicodeEncodeError is part of the evaluated behaviour
    if isinstance(v, (bytes, bytearray)):
        return bytes(v)
    raise Unsupported('six.ensure_binary of %s' % type(v).__name__)


def _ensure_text(v, encoding='utf-8', errors='strict'):
    if isinstance(v, (bytes, bytearray)):
        return bytes(v).decode(encoding, errors)
    if isinstance(v, str):
        return v
    raise Unsupported('six.ensure_text of %s' % type(v).__name__)


# six on Python 3 (the interpreter the repository runs under): fixed meanings
import math as _math
import functools as _functools
def _partial(f, *a, **k):
    p = _functools.partial(f, *a, **k)
    p._miniexec = True          # a function value built by the evaluated code
    return p


DOTTED_CALLS = {'functools.reduce': _reduce, 'functools.partial': _partial, 'math.isnan': _math.isnan, 'math.isinf': _math.isinf, 'math.isfinite': _math.isfinite, 'math.ceil': _math.ceil, 'math.floor': _math.floor, 'six.iterbytes': lambda b: list(bytes(b)), 'six.indexbytes': lambda b, i: bytes(b)[i],
                'six.int2byte': lambda i: bytes([i]), 'six.ensure_binary': _ensure_binary, 'six.ensure_text': _ensure_text,
                'six.ensure_str': _ensure_text, 'six.b': lambda s: s.encode('latin-1'), 'six.u': lambda s: s,
                'six.text_type': str, 'six.binary_type': bytes}
import collections as _collections
import struct as _struct
DOTTED_CALLS['struct.calcsize'] = _struct.calcsize        # sizes of the standard formats are constants of the language
DOTTED_CALLS['struct.unpack'] = lambda fmt, data: _struct.unpack(fmt, bytes(data))
DOTTED_CALLS['struct.pack'] = _struct.pack
DOTTED_CALLS['struct.unpack_from'] = lambda fmt, data, offset=0: _struct.unpack_from(fmt, bytes(data), offset)
import itertools as _itertools
# pure iteration helpers of the standard library: evaluated eagerly over the (finite) model values
DOTTED_CALLS['itertools.chain'] = lambda *its: [x for it in its for x in list(it)]
DOTTED_CALLS['itertools.chain.from_iterable'] = lambda its: [x for it in list(its) for x in list(it)]
DOTTED_CALLS['itertools.islice'] = lambda it, *a: list(_itertools.islice(list(it), *a))
DOTTED_CALLS['itertools.repeat'] = lambda v, n: [v] * n
DOTTED_CALLS['itertools.product'] = lambda *its, **kw: [tuple(x) for x in _itertools.product(*[list(i) for i in its], **kw)]
DOTTED_CALLS['itertools.zip_longest'] = lambda *its, **kw: list(_itertools.zip_longest(*[list(i) for i in its], **kw))
import re as _re
# regular expressions are evaluated by the standard library's own engine (pattern text from the evaluated code)
DOTTED_CALLS['re.compile'] = _re.compile
for _m in ('match', 'search', 'fullmatch', 'findall', 'sub', 'split'):
    METHODS.add((_re.Pattern, _m))
for _m in ('group', 'groups', 'groupdict', 'start', 'end', 'span'):
    METHODS.add((_re.Match, _m))
DOTTED_CALLS['collections.OrderedDict'] = _collections.OrderedDict
import operator as _operator
DOTTED_CALLS['operator.index'] = _operator.index       # TypeError for a value that is not an integer: evaluated behaviour
import base64 as _base64
# the base64 codec of the standard library (its leniency - characters outside the alphabet are dropped unless validate=True - is
# part of what the evaluated code relies on)
DOTTED_CALLS['base64.b64decode'] = _base64.b64decode
DOTTED_CALLS['base64.b64encode'] = _base64.b64encode
TYPE_VALUES = {'slice': slice, 'int': int, 'str': str, 'bytes': bytes, 'bytearray': bytearray, 'bool': bool, 'list': list, 'tuple': tuple, 'dict': dict, 'set': set}


def _getattr(obj, name, *default):
    # attribute of a model object by computed name (getattr(self, flag_name))
    if not isinstance(obj, Native) or not isinstance(name, str) or name.startswith('__'):
        raise Unsupported('getattr on %s' % type(obj).__name__)
    return getattr(obj, name, *default)


BUILTINS['getattr'] = _getattr
BUILTINS['float'] = float
BUILTINS['round'] = round
BUILTINS['pow'] = pow
METHODS.add((set, 'add'))
BUILTINS['sorted'] = sorted
BUILTINS['len'] = len
BUILTINS['any'] = any
BUILTINS['all'] = all
for _t in (str, bytes, bytearray):
    for _m in ('endswith', 'startswith', 'strip', 'lstrip', 'rstrip', 'lower', 'upper', 'title', 'swapcase', 'find', 'index',
               'count', 'split', 'rsplit', 'partition', 'rpartition', 'splitlines', 'replace', 'isdigit', 'isalpha', 'isalnum', 'isspace',
               'isupper', 'islower', 'rfind', 'rindex', 'zfill', 'ljust', 'rjust', 'center', 'casefold', 'capitalize'):
        METHODS.add((_t, _m))


import datetime as _datetime
for _m in ('total_seconds',):
    METHODS.add((_datetime.timedelta, _m))


_NOT_EVALUATED = object()


class Native:
    """base of the model objects a rule hands to the evaluated code: their attributes (properties included) can be
    read, their methods called and their items subscripted by that code"""


class Obj(Native):
    """a record with attributes the evaluated code may read (and methods given as python callables)"""

    def __init__(self, **kw):
        self.__dict__.update(kw)
MAX_STEPS = 200000
COUNTER = [0]           # evaluation steps over all evaluators (expressions + statements): read by the work tabulations


class Evaluator:
    def __init__(self, env, hook=None, name_hook=None):
        self.env = dict(env)
        self.hook = hook
        self.name_hook = name_hook
        defaults = getattr(hook, 'default_names', None)
        if defaults is not None and not getattr(name_hook, 'with_defaults', False):
            # a class hook brings the module / class level names of its class: consulted when the caller's own name hook
            # (if any) does not know the name
            own = name_hook

            def both(name):
                if own is not None:
                    try:
                        return own(name)
                    except Unsupported:
                        pass
                return defaults(name)
            both.with_defaults = True
            both.own = own
            self.name_hook = both
        self.steps = 0
        # class whose method is being evaluated: source of self.X / cls.X constants.  A class hook names the class the
        # evaluation is about (a subclass overriding a constant of the defining class wins); else set by function()
        self.owner = getattr(hook, 'owner_class', None)

    # -- expressions ----------------------------------------------------------------
    def ev(self, n):
        self.steps += 1
        COUNTER[0] += 1
        if self.steps > MAX_STEPS:
            raise Unsupported('step bound exceeded')
        if isinstance(n, ast.Constant):
            return n.value
        if isinstance(n, ast.Name):
            if n.id in self.env:
                return self.env[n.id]
            if n.id in TYPE_VALUES:
                return TYPE_VALUES[n.id]         # a builtin type used as a value (converter argument, isinstance operand)
            scope = getattr(self, 'class_scope', None)
            if scope is not None and hasattr(scope, 'resolve_var'):
                # the expression is the body of a class level constant: earlier names of the class body (MESSAGE_SIZE = 2 * _FIELD_SIZE)
                var = scope.resolve_var(n.id)
                node = getattr(var, 'node', None)
                if isinstance(node, ast.AST) and not isinstance(node, (ast.FunctionDef, ast.Lambda)) and node is not getattr(self, 'class_scope_node', None):
                    sub = Evaluator({}, self.hook, self.name_hook)
                    sub.owner, sub.class_scope, sub.class_scope_node = self.owner, scope, node
                    return sub.ev(node)
            if self.name_hook is not None:
                try:
                    return self.name_hook(n.id)
                except Unsupported:
                    if n.id not in BUILTINS:
                        raise
            if n.id in BUILTINS:
                return BUILTINS[n.id]           # a builtin function used as a value (``(str, len)`` in a dispatch table)
            if n.id in ('True', 'False', 'None'):
                return {'True': True, 'False': False, 'None': None}[n.id]
            raise Unsupported('free name %s' % n.id)
        if isinstance(n, ast.BinOp):
            if type(n.op) not in BIN:
                raise Unsupported('operator %s' % type(n.op).__name__)
            a, b = self.ev(n.left), self.ev(n.right)
            try:
                return BIN[type(n.op)](a, b)
            except Exception as e:      # pylint: disable=broad-except
                raise Unsupported('%s: %s' % (ast.unparse(n), e))
        if isinstance(n, ast.UnaryOp):
            v = self.ev(n.operand)
            if isinstance(n.op, ast.Not):
                return not v
            if isinstance(n.op, ast.USub):
                return -v
            if isinstance(n.op, ast.Invert):
                return ~v
            return +v
        if isinstance(n, ast.BoolOp):
            r = None
            for x in n.values:
                r = self.ev(x)
                if isinstance(n.op, ast.And) and not r:
                    return r
                if isinstance(n.op, ast.Or) and r:
                    return r
            return r
        if isinstance(n, ast.Compare):
            left = self.ev(n.left)
            for op, c in zip(n.ops, n.comparators):
                right = self.ev(c)
                if not CMP[type(op)](left, right):
                    return False
                left = right
            return True
        if isinstance(n, ast.IfExp):
            return self.ev(n.body) if self.ev(n.test) else self.ev(n.orelse)
        if isinstance(n, (ast.Tuple, ast.List)):
            vals = [self.ev(x) for x in n.elts]
            return tuple(vals) if isinstance(n, ast.Tuple) else vals
        if isinstance(n, ast.Subscript):
            base = self.ev(n.value)
            if isinstance(n.slice, ast.Slice):
                lo = self.ev(n.slice.lower) if n.slice.lower is not None else None
                hi = self.ev(n.slice.upper) if n.slice.upper is not None else None
                st = self.ev(n.slice.step) if n.slice.step is not None else None
                return base[lo:hi:st]
            if isinstance(base, Native):
                return base[self.ev(n.slice)]       # errors of model objects are part of the evaluated behaviour
            key = self.ev(n.slice)
            try:
                return base[key]
            except (IndexError, KeyError):
                if isinstance(base, (list, tuple, dict, bytes, bytearray, str)):
                    raise           # out of range / missing key on a plain container: part of the evaluated behaviour
                raise Unsupported('%s' % ast.unparse(n))
            except TypeError as e:
                if isinstance(base, (list, tuple, bytes, bytearray, str)) and (key is None or isinstance(key, (str, float, bytes))) and \
                        not isinstance(base, str if isinstance(key, str) else ()):
                    raise           # a position of another type than an integer: the TypeError of the sequence is the evaluated behaviour
                raise Unsupported('%s: %s' % (ast.unparse(n), e))
            except Exception as e:      # pylint: disable=broad-except
                raise Unsupported('%s: %s' % (ast.unparse(n), e))
        if isinstance(n, ast.Call):
            return self.call(n)
        if isinstance(n, ast.Lambda):
            # a function value closing over the current environment (sort keys, small predicates)
            params = [a.arg for a in n.args.args]
            if n.args.vararg or n.args.kwarg or n.args.kwonlyargs or n.args.defaults:
                raise Unsupported('lambda with defaults / star parameters')
            outer = self

            def fn(*args):
                if len(args) != len(params):
                    raise Unsupported('lambda called with %d arguments' % len(args))
                sub = Evaluator(dict(outer.env, **dict(zip(params, args))), outer.hook, outer.name_hook)
                sub.owner = outer.owner
                return sub.ev(n.body)
            fn._miniexec = True
            return fn
        if isinstance(n, ast.ListComp):
            return self.comprehension(n, 0, [])
        if isinstance(n, ast.GeneratorExp):
            # evaluated eagerly (the elements evaluated are side effect free model values), handed on as an iterator
            return iter(self.comprehension(n, 0, []))
        if isinstance(n, ast.SetComp):
            return set(self.comprehension(n, 0, []))
        if isinstance(n, ast.DictComp):
            pair = ast.Tuple(elts=[n.key, n.value], ctx=ast.Load())
            return dict(self.comprehension(ast.ListComp(elt=pair, generators=n.generators), 0, []))
        if isinstance(n, ast.Set):
            return {self.ev(x) for x in n.elts}
        if isinstance(n, ast.Dict) and all(k is not None for k in n.keys):
            return {self.ev(k): self.ev(v) for k, v in zip(n.keys, n.values)}
        if isinstance(n, ast.Attribute) and not (isinstance(n.value, ast.Name) and n.value.id not in self.env):
            try:
                base = self.ev(n.value)
            except Unsupported:
                base = _NOT_EVALUATED
            if base is None:
                # what Python does: the evaluated code reached through a null column / an absent value
                raise AttributeError("'NoneType' object has no attribute %r" % n.attr)
            if isinstance(base, Native) and hasattr(base, n.attr):
                return getattr(base, n.attr)
            if isinstance(base, Native) and getattr(base, '_strict', False):
                # a model that is complete: what it lacks, the object it stands for lacks as well
                raise AttributeError('%r object has no attribute %r' % (getattr(base, 'name', 'model'), n.attr))
            if isinstance(base, Native) and getattr(base, '_repo_class', None) is not None:
                # a property of the repository class the model object stands for: its getter, evaluated on the model
                m = base._repo_class.resolve(n.attr)
                if m is not None and not getattr(m.module, 'external', False) and isinstance(m.node, ast.FunctionDef) and \
                        any(ast.unparse(d) == 'property' for d in m.node.decorator_list):
                    sub = Evaluator({m.node.args.args[0].arg: base}, self.hook, self.name_hook)
                    return sub.function(m.node)
                # a class level constant of that class (``record_class.HEADER_SIZE`` on the model of the class object)
                var = base._repo_class.resolve_var(n.attr) if hasattr(base._repo_class, 'resolve_var') else None
                vnode = getattr(var, 'node', None)
                if isinstance(vnode, ast.AST) and not isinstance(vnode, (ast.FunctionDef, ast.Lambda)):
                    sub = Evaluator({}, self.hook, self.name_hook)
                    sub.owner = base._repo_class
                    sub.class_scope, sub.class_scope_node = getattr(var, 'cls', None) or base._repo_class, vnode
                    return sub.ev(vnode)
            if isinstance(base, slice) and n.attr in ('start', 'stop', 'step'):
                return getattr(base, n.attr)
            if isinstance(base, _datetime.datetime) and n.attr in ('tzinfo', 'year', 'month', 'day', 'hour', 'minute', 'second', 'microsecond'):
                return getattr(base, n.attr)        # plain data of a real datetime (rules that evaluate with the real type)
        if isinstance(n, ast.Attribute) and ast.unparse(n) in DOTTED and ast.unparse(n).split('.')[0] not in self.env:
            return DOTTED[ast.unparse(n)]
        if isinstance(n, ast.Attribute) and isinstance(n.value, ast.Name) and n.value.id in ('self', 'cls') and self.owner is not None:
            # a class level constant (size limit, table, format string) reached through self / cls
            var = self.owner.resolve_var(n.attr) if hasattr(self.owner, 'resolve_var') else None
            node = getattr(var, 'node', None)
            if isinstance(node, ast.AST) and not isinstance(node, (ast.FunctionDef, ast.Lambda)):
                memo = getattr(self.hook, 'class_values', None)
                key = (id(getattr(var, 'cls', None) or self.owner), n.attr)
                if memo is not None and key in memo:
                    return memo[key]
                sub = Evaluator({}, self.hook, self.name_hook)
                sub.owner = self.owner
                sub.class_scope, sub.class_scope_node = getattr(var, 'cls', None) or self.owner, node
                try:
                    val = sub.ev(node)
                    if memo is not None and isinstance(val, (list, dict, set)):
                        memo[key] = val         # class level *state*: one object for the whole evaluation session
                    return val
                except Unsupported:
                    pass
        if isinstance(n, ast.Attribute) and self.name_hook is not None:
            return self.name_hook(ast.unparse(n))
        raise Unsupported('expression %s' % ast.unparse(n)[:60])

    def comprehension(self, n, i, out):
        if i == len(n.generators):
            out.append(self.ev(n.elt))
            return out
        g = n.generators[i]
        saved = dict(self.env)
        for x in self.ev(g.iter):
            self.assign(g.target, x)
            if all(self.ev(c) for c in g.ifs):
                self.comprehension(n, i + 1, out)
        self.env = saved
        return out

    def call(self, n):
        args = None
        if self.hook is not None:
            r = self.hook(n, self)
            if r is not NotImplemented:
                return r
        if ast.unparse(n.func) == 'six.raise_from' and n.args:
            # six.raise_from(X, cause): a raise statement in function form
            raise self.raised(n.args[0])
        if isinstance(n.func, ast.Name) and n.func.id == 'isinstance' and len(n.args) == 2 and 'isinstance' not in self.env:
            first = self.ev(n.args[0])
            names = getattr(first, '_exception_names', None)
            if names is not None:
                ts = n.args[1].elts if isinstance(n.args[1], ast.Tuple) else [n.args[1]]
                return any(ast.unparse(t).split('.')[-1] in names for t in ts)
            kinds = getattr(first, '_isa', None)
            if kinds is not None or not isinstance(first, Native):
                # a model object that states the repository / library classes it is an instance of (``_isa``), or a plain python
                # value, tested against classes named in the evaluated code (resolved to ClassRef) and builtin types
                def flat(t):
                    if isinstance(t, (tuple, list)):
                        for x in t:
                            for y in flat(x):
                                yield y
                    else:
                        yield t
                try:
                    second = self.ev(n.args[1])
                except Unsupported:
                    second = None
                if second is not None:
                    verdicts = []
                    for t in flat(second):
                        if isinstance(t, type):
                            verdicts.append(isinstance(first, t) and kinds is None)
                        elif isinstance(t, ClassRef):
                            mro_names = {getattr(k, 'name', None) for k in getattr(t.info, 'mro', [])} | {getattr(t.info, 'name', None)}
                            verdicts.append(kinds is not None and getattr(t.info, 'name', None) in kinds)
                        else:
                            verdicts = None
                            break
                    if verdicts is not None:
                        return any(verdicts)
        args = []
        for a in n.args:
            if isinstance(a, ast.Starred):
                spread = self.ev(a.value)
                if not isinstance(spread, (list, tuple)):
                    raise Unsupported('*%s of a value that is not a list or tuple' % ast.unparse(a.value)[:40])
                args.extend(spread)
            else:
                args.append(self.ev(a))
        kwargs = {}
        for k in n.keywords:
            if k.arg is None:
                spread = self.ev(k.value)
                if not isinstance(spread, dict):
                    raise Unsupported('**%s of a value that is not a dict' % ast.unparse(k.value)[:40])
                kwargs.update(spread)
            else:
                kwargs[k.arg] = self.ev(k.value)
        d = ast.unparse(n.func)
        if (d in DOTTED_CALLS or d in DOTTED) and d.split('.')[0] not in self.env:
            try:
                return (DOTTED_CALLS.get(d) or DOTTED[d])(*args, **kwargs)
            except (UnicodeError, IndexError):
                raise
            except TypeError as e:
                if d == 'operator.index' and len(args) == 1 and not kwargs:
                    raise       # what the call is there for: the TypeError of a value that is not an integer
                raise Unsupported('%s: %s' % (ast.unparse(n)[:60], e))
        if isinstance(n.func, ast.Attribute) and isinstance(n.func.value, ast.Name) and n.func.value.id not in self.env and \
                (n.func.value.id, n.func.attr) in TYPE_METHODS:
            return TYPE_METHODS[(n.func.value.id, n.func.attr)](*args, **kwargs)
        if isinstance(n.func, ast.Name) and n.func.id in BUILTINS and n.func.id not in self.env:
            try:
                return BUILTINS[n.func.id](*args, **kwargs)
            except (StopIteration, KeyError, IndexError, ValueError):
                raise           # part of the evaluated behaviour (next() on an exhausted iterator, int('x') ...)
            except Exception as e:      # pylint: disable=broad-except
                raise Unsupported('%s: %s' % (ast.unparse(n), e))
        if isinstance(n.func, ast.Name) and n.func.id in self.env and isinstance(self.env[n.func.id], Native) and callable(self.env[n.func.id]):
            return self.env[n.func.id](*args, **kwargs)
        if isinstance(n.func, ast.Name) and n.func.id in self.env and callable(self.env[n.func.id]) and \
                (getattr(self.env[n.func.id], '_miniexec', False) or any(self.env[n.func.id] is b for b in BUILTINS.values())):
            # a function value of the evaluated code itself: a lambda it built, or a builtin it stored in a table
            try:
                return self.env[n.func.id](*args, **kwargs)
            except TypeError as e:
                raise Unsupported('%s: %s' % (ast.unparse(n)[:60], e))
        if isinstance(n.func, ast.Name) and n.func.id in self.env and any(self.env[n.func.id] is t for t in (int, str, bytes, bytearray, bool, list, tuple)):
            # a builtin type handed in as an argument (converter parameters): ValueError / TypeError are part of the behaviour
            try:
                return self.env[n.func.id](*args, **kwargs)
            except TypeError as e:
                raise Unsupported('%s: %s' % (ast.unparse(n), e))
        if isinstance(n.func, ast.Attribute):
            base = self.ev(n.func.value)
            for t, m in METHODS:
                if isinstance(base, t) and not isinstance(base, bool) and m == n.func.attr:
                    return getattr(base, m)(*args, **kwargs)
            if isinstance(base, Native) and callable(getattr(base, n.func.attr, None)):
                return getattr(base, n.func.attr)(*args, **kwargs)
        if not isinstance(n.func, (ast.Name, ast.Attribute)):
            # the callee is itself the value of an expression (``self.get_param_class()(...)``): every callable value an
            # evaluation can hold comes from a rule's model or from the tables above
            fv = self.ev(n.func)
            if callable(fv):
                return fv(*args, **kwargs)
        raise Unsupported('call %s' % ast.unparse(n)[:60])

    def closure(self, fdef):
        params = [a.arg for a in fdef.args.args]
        defaults = [self.ev(d) for d in fdef.args.defaults]
        outer = self

        def fn(*args, **kwargs):
            env = dict(outer.env)
            bound = dict(zip(params, args))
            bound.update(kwargs)
            for p, d in zip(params[len(params) - len(defaults):], defaults):
                bound.setdefault(p, d)
            if set(bound) != set(params):
                raise Unsupported('call of local function %s with other arguments than its parameters' % fdef.name)
            env.update(bound)
            sub = Evaluator(env, outer.hook, outer.name_hook)
            sub.owner = outer.owner
            return sub.function(fdef)
        fn._miniexec = True
        return fn

    def raised(self, exc_node):
        """the Raised for ``raise <exc_node>``: by the source text of the expression, plus its value when the expression is a
        name bound to / a call evaluating to an exception model (ExcVal)"""
        val = None
        if isinstance(exc_node, ast.Name) and getattr(self.env.get(exc_node.id), '_original', None) is not None:
            return self.env[exc_node.id]._original          # ``except X as e: ...; raise e``: the exception that was caught, as it was
        if isinstance(exc_node, ast.Name) and isinstance(self.env.get(exc_node.id), ExcVal):
            val = self.env[exc_node.id]
        elif isinstance(exc_node, ast.Call) and self.hook is not None:
            callee = exc_node.func
            last = callee.id if isinstance(callee, ast.Name) else (callee.attr if isinstance(callee, ast.Attribute) else '')
            if last[:1].isupper():
                try:
                    r = self.hook(exc_node, self)
                except Unsupported:
                    r = NotImplemented
            else:
                # the exception object is computed by a helper: its value decides what is raised
                r = self.ev(exc_node)
                if not isinstance(r, ExcVal):
                    raise Unsupported('raise of a computed value that is not an exception model: %s' % ast.unparse(exc_node)[:60])
            if isinstance(r, ExcVal):
                val = r
        if val is not None:
            return Raised(repr(val), val)
        return Raised(ast.unparse(exc_node))

    # -- statements -----------------------------------------------------------------
    def assign(self, t, v):
        if isinstance(t, ast.Name):
            self.env[t.id] = v
        elif isinstance(t, (ast.Tuple, ast.List)):
            v = list(v)
            if len(v) != len(t.elts):
                raise Unsupported('unpacking')
            for x, y in zip(t.elts, v):
                self.assign(x, y)
        elif isinstance(t, ast.Subscript) and not isinstance(t.slice, ast.Slice):
            base = self.ev(t.value)
            if not isinstance(base, (dict, list, Native)):
                raise Unsupported('item assignment on %s' % type(base).__name__)
            base[self.ev(t.slice)] = v
        elif isinstance(t, ast.Attribute):
            base = self.ev(t.value)
            if not isinstance(base, Native):
                raise Unsupported('attribute assignment on %s' % type(base).__name__)
            setattr(base, t.attr, v)
        else:
            raise Unsupported('assignment target %s' % ast.unparse(t))

    def run(self, stmts):
        for st in stmts:
            self.steps += 1
            COUNTER[0] += 1
            if self.steps > MAX_STEPS:
                raise Unsupported('step bound exceeded')
            if isinstance(st, ast.Assign):
                v = self.ev(st.value)
                for t in st.targets:
                    self.assign(t, v)
            elif isinstance(st, ast.AugAssign):
                if type(st.op) not in BIN:
                    raise Unsupported(ast.unparse(st))
                if isinstance(st.target, ast.Name):
                    self.env[st.target.id] = BIN[type(st.op)](self.ev(st.target), self.ev(st.value))
                else:
                    load = ast.parse(ast.unparse(st.target), mode='eval').body
                    self.assign(st.target, BIN[type(st.op)](self.ev(load), self.ev(st.value)))
            elif isinstance(st, ast.If):
                self.run(st.body if self.ev(st.test) else st.orelse)
            elif isinstance(st, ast.While):
                broke = False
                while self.ev(st.test):
                    try:
                        self.run(st.body)
                    except _Break:
                        broke = True
                        break
                    except _Continue:
                        continue
                if not broke:
                    self.run(st.orelse)
            elif isinstance(st, ast.For):
                it = self.ev(st.iter)
                if isinstance(it, (dict, set, frozenset)):
                    it = sorted(it) if isinstance(it, (set, frozenset)) else list(it)
                if isinstance(it, (Native, ClassRef)) and hasattr(it, '__iter__'):
                    it = list(it)
                if not isinstance(it, (range, list, tuple, bytes, bytearray, str)) and type(it).__name__ not in ('odict_items', 'dict_items', 'dict_keys', 'dict_values', 'odict_keys', 'odict_values'):
                    raise Unsupported('iteration over %s' % ast.unparse(st.iter))
                broke = False
                for x in it:
                    self.assign(st.target, x)
                    try:
                        self.run(st.body)
                    except _Break:
                        broke = True
                        break
                    except _Continue:
                        continue
                if not broke:
                    self.run(st.orelse)
            elif isinstance(st, ast.FunctionDef):
                # a local function closing over the environment (a converter built by a factory method)
                if st.decorator_list or st.args.vararg or st.args.kwarg or st.args.kwonlyargs:
                    raise Unsupported('local function %s with decorators / star parameters' % st.name)
                self.env[st.name] = self.closure(st)
            elif isinstance(st, ast.Try):
                self.run_try(st)
            elif isinstance(st, ast.Break):
                raise _Break()
            elif isinstance(st, ast.Continue):
                raise _Continue()
            elif isinstance(st, ast.Raise):
                if st.exc is None and getattr(self, '_handling', None):
                    raise self._handling[-1]           # a bare raise in a handler: the exception being handled, as it was
                raise (self.raised(st.exc) if st.exc is not None else Raised('re-raise'))
            elif isinstance(st, ast.Return):
                raise _Return(self.ev(st.value) if st.value is not None else None)
            elif isinstance(st, ast.Expr):
                if isinstance(st.value, ast.Constant):
                    continue
                self.ev(st.value)
            elif isinstance(st, ast.Pass):
                continue
            elif isinstance(st, ast.Delete):
                for t in st.targets:
                    if isinstance(t, ast.Name):
                        self.env.pop(t.id, None)
                    elif isinstance(t, ast.Subscript) and not isinstance(t.slice, ast.Slice):
                        base = self.ev(t.value)
                        if not isinstance(base, (dict, list, bytearray, Native)):
                            raise Unsupported('item deletion on %s' % type(base).__name__)
                        del base[self.ev(t.slice)]
                    elif isinstance(t, ast.Subscript):
                        base = self.ev(t.value)
                        if not isinstance(base, (list, bytearray)):
                            raise Unsupported('slice deletion on %s' % type(base).__name__)
                        lo, hi, step = (None if x is None else self.ev(x) for x in (t.slice.lower, t.slice.upper, t.slice.step))
                        if not all(x is None or (isinstance(x, int) and not isinstance(x, bool)) for x in (lo, hi, step)):
                            raise Unsupported('slice deletion with a bound that is not an integer')
                        del base[slice(lo, hi, step)]
                    else:
                        raise Unsupported('del %s' % ast.unparse(t))
            else:
                raise Unsupported('statement %s' % type(st).__name__)

    NATIVE_ERRORS = (KeyError, IndexError, ValueError, AttributeError, TypeError, ZeroDivisionError, StopIteration, OverflowError, OSError, _struct.error, NativeError)

    def run_try(self, st):
        """try / except / else / finally: handlers are matched by exception class *name* (a ``raise X(...)`` executed by
        the evaluated code, or a python exception raised by a model object) - no class hierarchy except Exception"""
        def handler_names(h):
            if h.type is None:
                return None
            ts = h.type.elts if isinstance(h.type, ast.Tuple) else [h.type]
            return {ast.unparse(t).split('.')[-1] for t in ts}
        try:
            try:
                self.run(st.body)
            except (Raised,) + self.NATIVE_ERRORS as e:
                name = e.what.split('(')[0].split('.')[-1] if isinstance(e, Raised) else type(e).__name__
                # a python exception raised by a builtin is caught by the names of its base classes as well
                # (UnicodeDecodeError by ``except UnicodeError`` / ``except ValueError``)
                bases = {name} if isinstance(e, (Raised, NativeError)) else {k.__name__ for k in type(e).__mro__}
                if isinstance(e, Raised) and getattr(e.value, 'bases', None):
                    bases = set(e.value.bases)
                for h in st.handlers:
                    names = handler_names(h)
                    if names is None or (names & bases) or 'Exception' in names or 'BaseException' in names:
                        if h.name:
                            eargs = e.value.args if isinstance(e, Raised) and isinstance(e.value, ExcVal) else getattr(e, 'args', ())
                            caught = Obj(args=tuple(eargs), what=str(e))
                            # the data attributes of the package's own errors, by the order of their parameters
                            ekw = e.value.kwargs if isinstance(e, Raised) and isinstance(e.value, ExcVal) else {}
                            for i, field in enumerate(EXCEPTION_FIELDS.get(name, ())):
                                if i < len(eargs) or field in ekw:
                                    setattr(caught, field, eargs[i] if i < len(eargs) else ekw[field])
                            caught._exception_names = set(bases) | {'Exception', 'BaseException'}
                            caught._original = e
                            self.env[h.name] = caught
                        self._handling = getattr(self, '_handling', []) + [e]
                        try:
                            self.run(h.body)
                        finally:
                            self._handling = self._handling[:-1]
                        break
                else:
                    raise
            else:
                self.run(st.orelse)
        finally:
            self.run(st.finalbody)

    def function(self, node):
        """value returned by the body of a FunctionDef (None when it falls off the end)"""
        if self.owner is None:
            from .model import FUNCTION_OWNER
            self.owner = FUNCTION_OWNER.get(id(node))
        try:
            self.run(node.body)
        except _Return as r:
            return r.value
        except self.NATIVE_ERRORS as e:
            # leaves the function as a raise of that exception: the arguments stay available to a handler further out
            val = ExcVal(type(e).__name__, *getattr(e, 'args', ()))
            if not isinstance(e, NativeError):
                val.bases = {k.__name__ for k in type(e).__mro__}
            raise Raised('%s(%s)' % (type(e).__name__, e), val)
        return None


class ClassRef:
    """a repository class named by the evaluated code (calls on it resolve through its static MRO); two references to the same
    class are equal, an enum class iterates over its members"""

    def __init__(self, info):
        self.info = info

    def __eq__(self, other):
        return isinstance(other, ClassRef) and other.info is self.info

    def __ne__(self, other):
        return not self.__eq__(other)

    def __hash__(self):
        return hash(id(self.info))

    def __iter__(self):
        members = getattr(self.info, 'enum_members', None)
        if not members:
            raise Unsupported('iteration over the class %s' % getattr(self.info, 'name', '?'))
        return iter([EnumVal.of(self.info, m) for m in members])

    def __repr__(self):
        return 'class %s' % getattr(self.info, 'name', '?')


class EnumVal(Native):
    """a member of an enum class of the model (repository or data tables): ``name``, ``value`` (a record of the member's
    parameter fields where the table has them), equal to itself only"""
    _MEMO = {}

    def __init__(self, info, member):
        self.info, self.name = info, member
        row = info.enum_members[member]
        fields = getattr(row, 'fields', None)
        if isinstance(fields, dict):
            self.value = Obj(**{k: v for k, v in fields.items() if isinstance(k, str) and not k.startswith('__')})
        elif isinstance(row, (int, str, bytes, bool, type(None))):
            self.value = row
        elif isinstance(row, ast.AST):
            # a member of an enum class of the repository: its value expression, when it is a literal
            try:
                self.value = ast.literal_eval(row)
            except (ValueError, SyntaxError, TypeError):
                self.value = Obj(unknown=True)
        else:
            self.value = Obj(unknown=True)

    @classmethod
    def of(cls, info, member):
        key = (id(info), member)
        if key not in cls._MEMO:
            cls._MEMO[key] = cls(info, member)
        return cls._MEMO[key]

    def __eq__(self, other):
        return self is other

    def __ne__(self, other):
        return self is not other

    def __hash__(self):
        return hash((id(self.info), self.name))

    def __repr__(self):
        return '%s.%s' % (getattr(self.info, 'name', '?'), self.name)


def class_call_hook(cls, extra=None, model=None):
    """hook resolving ``cls.m(...)`` / ``self.m(...)`` through the static MRO of ``cls`` (a sa.model.ClassInfo) and
    evaluating the callee's body with the same hook; with ``model`` given, module level class names evaluate to ClassRef
    and calls on a ClassRef resolve the same way; ``extra`` is consulted first"""
    module_values = {}
    class_values = {}       # mutable class level state (caches, registries) keeps its identity during one evaluation session

    def call_method(owner, m, n, ev, bound=None):
        params = [a.arg for a in m.node.args.args]
        first = None
        if params and params[0] in ('self', 'cls'):
            first = params[0]
            params = params[1:]
        args = []
        for a in n.args:
            if isinstance(a, ast.Starred):
                args.extend(ev.ev(a.value))
            else:
                args.append(ev.ev(a))
        env = dict(zip(params, args))
        extra_kw = {}
        for k in n.keywords:
            if k.arg is None:
                # f(**mapping)
                for kk, vv in dict(ev.ev(k.value)).items():
                    (env if kk in params else extra_kw)[kk] = vv
            elif k.arg in params or m.node.args.kwarg is None:
                env[k.arg] = ev.ev(k.value)
            else:
                extra_kw[k.arg] = ev.ev(k.value)
        if m.node.args.vararg is not None:
            env[m.node.args.vararg.arg] = tuple(args[len(params):])
        if m.node.args.kwarg is not None:
            env[m.node.args.kwarg.arg] = extra_kw
        defaults = m.node.args.defaults
        for p, d in zip(params[len(params) - len(defaults):], defaults):
            if p not in env:
                env[p] = Evaluator({}, None, name_hook_for(m.module, None)).ev(d)
        if first is not None and bound is not None:
            env[first] = bound
        sub = Evaluator(env, make(owner, m.module), name_hook_for(m.module, ev.name_hook))
        if first is not None and hasattr(owner, 'resolve_var'):
            sub.owner = owner       # constants reached through self / cls are looked up from the class the call went through
        return sub.function(m.node)

    def name_hook_for(module, outer):
        def nh(name):
            rule_names = getattr(outer, 'own', None) if getattr(outer, 'with_defaults', False) else outer
            if rule_names is not None:
                # the names the rule models itself come first (a library class the rule replaces by a model object)
                try:
                    return rule_names(name)
                except Unsupported:
                    pass
            if model is not None and '.' not in name:
                r = model.resolve_name(module, name)
                if r is not None and hasattr(r, 'mro') and hasattr(r, 'resolve'):
                    return ClassRef(r)
                if r is not None and type(r).__name__ == 'VarRef' and isinstance(getattr(r, 'node', None), ast.AST):
                    # a module level constant (table, number, sentinel): evaluated once, so that identity tests work
                    key = (id(r.module), r.name)
                    if key not in module_values:
                        try:
                            # with the names the rule models itself (a byte order member named in a module level tuple is the rule's member)
                            module_values[key] = Evaluator({}, make(cls, r.module), name_hook_for(r.module, outer)).ev(r.node)
                        except Unsupported:
                            module_values[key] = Unsupported
                    if module_values[key] is not Unsupported:
                        return module_values[key]
                if r is not None and isinstance(getattr(r, 'node', None), ast.FunctionDef) and not hasattr(r, 'mro') and \
                        getattr(r, 'cls', None) is None and not getattr(r.module, 'external', False):
                    # a module level helper function used as a value (kept in a table of getters / converters)
                    def function_value(*args, _f=r):
                        params = [a.arg for a in _f.node.args.args]
                        return Evaluator(dict(zip(params, args)), make(cls, _f.module), name_hook_for(_f.module, outer)).function(_f.node)
                    function_value._miniexec = True
                    return function_value
            parts = name.split('.')
            holder = None
            if len(parts) == 2 and (parts[0] in ('cls', 'self') or parts[0] == getattr(cls, 'name', None)) and hasattr(cls, 'resolve_var'):
                holder = cls
            elif len(parts) == 2 and model is not None:
                r = model.resolve_name(module, parts[0])
                if r is not None and hasattr(r, 'resolve_var') and hasattr(r, 'mro') and not getattr(r, 'enum_members', None):
                    holder = r          # ``OtherClass.TABLE``
            if holder is not None:
                # a class level constant (table, number, string) of the class under evaluation - or its state (a cache)
                v = holder.resolve_var(parts[1])
                node = getattr(v, 'node', v)
                if isinstance(node, ast.AST):
                    key = (id(getattr(v, 'cls', None) or holder), parts[1])
                    if key in class_values:
                        return class_values[key]
                    try:
                        cev = Evaluator({}, make(holder, holder.module), name_hook_for(holder.module, outer))
                        cev.class_scope, cev.class_scope_node = getattr(v, 'cls', None) or holder, node
                        val = cev.ev(node)
                        if isinstance(val, (list, dict, set)):
                            class_values[key] = val
                        return val
                    except Unsupported:
                        pass
            owner_of_method = None
            if len(parts) == 2 and hasattr(cls, 'resolve') and (parts[0] in ('cls', 'self') or parts[0] == getattr(cls, 'name', None)):
                owner_of_method = cls
            elif len(parts) == 2 and model is not None:
                r = model.resolve_name(module, parts[0])
                if r is not None and hasattr(r, 'resolve') and hasattr(r, 'mro') and not getattr(r, 'external', False) and \
                        not getattr(r, 'enum_members', None):
                    owner_of_method = r         # ``OtherClass.method`` named in a table of handlers
            if owner_of_method is not None:
                # a method of the class under evaluation (or of a class it names) used as a value (handed to a primitive as converter,
                # kept in a dispatch table): a callable that evaluates the method's own statements on its positional arguments
                m = owner_of_method.resolve(parts[1])
                if m is not None and isinstance(getattr(m, 'node', None), ast.FunctionDef) and not getattr(m.module, 'external', False):
                    def method_value(*args, _m=m, _k=owner_of_method):
                        params = [a.arg for a in _m.node.args.args]
                        env = {}
                        if params and params[0] in ('self', 'cls'):
                            env[params[0]] = parts[0] if parts[0] in ('cls', 'self') else 'cls'
                            params = params[1:]
                        env.update(zip(params, args))
                        return Evaluator(env, make(_k, _m.module), name_hook_for(_m.module, outer)).function(_m.node)
                    method_value._miniexec = True
                    return method_value
            if outer is not None:
                try:
                    return outer(name)
                except Unsupported:
                    if model is None or len(parts) != 2:
                        raise
            if model is not None and len(parts) == 2:
                # a member of an enum class (repository or data tables) the rule's own model does not name
                r = model.resolve_name(module, parts[0])
                if r is not None and getattr(r, 'enum_members', None) and parts[1] in r.enum_members:
                    return EnumVal.of(r, parts[1])
            raise Unsupported('free name %s' % name)
        nh.with_defaults = True
        nh.own = getattr(outer, 'own', None) if getattr(outer, 'with_defaults', False) else outer
        return nh

    def make(owner, module):
        def hook(n, ev):
            if extra is not None:
                r = extra(n, ev)
                if r is not NotImplemented:
                    return r
            f = n.func
            if isinstance(f, ast.Attribute) and isinstance(f.value, ast.Call) and isinstance(f.value.func, ast.Name) and f.value.func.id == 'super' \
                    and hasattr(owner, 'mro'):
                # super(Class, cls).method(...) / super().method(...): the next definition of the method after ``Class`` in the static MRO of
                # the class the evaluation runs for, evaluated with the same receiver
                after = None
                if f.value.args and isinstance(f.value.args[0], ast.Name):
                    after = f.value.args[0].id
                bound_name = f.value.args[1].id if len(f.value.args) > 1 and isinstance(f.value.args[1], ast.Name) else ('cls' if 'cls' in ev.env else 'self')
                chain = [k for k in owner.mro if hasattr(k, 'methods')]
                names = [getattr(k, 'name', None) for k in chain]
                start = names.index(after) + 1 if after in names else 1
                for k in chain[start:]:
                    m = k.methods.get(f.attr)
                    if m is not None and not getattr(m.module, 'external', False):
                        return call_method(owner, m, n, ev, ev.env.get(bound_name))
                raise Unsupported('super().%s not found in the class chain' % f.attr)
            if isinstance(f, ast.Name) and f.id == 'getattr' and len(n.args) in (2, 3) and 'getattr' not in ev.env:
                # getattr(cls, name) / getattr(TheClass, name) with a computed name: the method (as a callable that evaluates its
                # statements) or the class level constant of that name
                try:
                    base, attr_name = ev.ev(n.args[0]), ev.ev(n.args[1])
                except Unsupported:
                    base = attr_name = None
                is_class = base in ('cls', 'self') and isinstance(base, str) or (isinstance(base, ClassRef) and base.info is owner)
                if is_class and isinstance(attr_name, str):
                    try:
                        return name_hook_for(module, ev.name_hook)('cls.' + attr_name)
                    except Unsupported:
                        if len(n.args) == 3:
                            return ev.ev(n.args[2])
                        raise
            if isinstance(f, ast.Attribute):
                bound = None
                if isinstance(f.value, ast.Name) and f.value.id in ('self', 'cls'):
                    bound = ev.env.get(f.value.id)
                    if isinstance(bound, Native) and callable(getattr(bound, f.attr, None)):
                        return NotImplemented          # a method of the model object itself
                    target = owner
                    if isinstance(bound, Native) and getattr(bound, '_repo_class', None) is not None and bound._repo_class is not owner and \
                            bound._repo_class.resolve(f.attr) is not None:
                        target = bound._repo_class     # ``self`` is a model of another class than the one the session started with
                else:
                    try:
                        base = ev.ev(f.value)
                    except Unsupported:
                        return NotImplemented
                    if isinstance(base, Native) and getattr(base, '_repo_class', None) is not None and not callable(getattr(base, f.attr, None)):
                        # a model object standing for an instance of a repository class: methods the model does not provide
                        # itself are the repository's own, evaluated with the model as self
                        target, bound = base._repo_class, base
                        m = target.resolve(f.attr)
                        if m is None or getattr(m.module, 'external', False):
                            raise Unsupported('unknown method %s.%s' % (getattr(target, 'name', '?'), f.attr))
                        return call_method(target, m, n, ev, bound)
                    if not isinstance(base, ClassRef):
                        return NotImplemented
                    target = base.info
                m = target.resolve(f.attr)
                if m is None or getattr(m.module, 'external', False):
                    raise Unsupported('unknown method %s.%s' % (getattr(target, 'name', '?'), f.attr))
                return call_method(target, m, n, ev, bound)
            if isinstance(f, ast.Name) and model is not None and f.id not in ev.env and f.id not in BUILTINS:
                # a module level function of the repository (imported helper): evaluated from its own statements
                r = model.resolve_name(module, f.id)
                if r is not None and hasattr(r, 'node') and isinstance(getattr(r, 'node', None), ast.FunctionDef) and getattr(r, 'cls', None) is None \
                        and not getattr(r.module, 'external', False):
                    return call_method(owner, r, n, ev, None)
            return NotImplemented
        hook.owner_class = owner if hasattr(owner, 'resolve_var') else None
        hook.class_values = class_values
        return hook
    top = make(cls, cls.module)
    top.name_hook_for = name_hook_for
    top.default_names = name_hook_for(cls.module, None)
    return top
