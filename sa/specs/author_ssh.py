"""Authoring helper for sa/specs/ssh.json (run: python3 sa/specs/author_ssh.py).  Written from RFC 4251 (data types),
RFC 4253 (transport, KEXINIT, DH, host keys), RFC 4419 (group exchange), RFC 5656 3.1, RFC 8709 and OpenSSH
PROTOCOL.certkeys.  Data, not derived from /repo."""
import collections
import json
import os

T = collections.OrderedDict()


def S(name):
    return {'struct': name}


def string(enc='ascii', name=None):
    """RFC 4251 5 string: uint32 length + bytes (text where the RFC says so)"""
    d = {'lp': 4, 'body': [{'text': enc}]}
    if name:
        d['name'] = name
    return d


def blob(name=None):
    d = {'lp': 4, 'body': [{'raw': '*'}]}
    if name:
        d['name'] = name
    return d


def blob_of(attr):
    """a byte string that carries the named attribute of the message"""
    return {'lp': 4, 'body': [{'raw': '*', 'attr': attr}]}


def string_of(enc, attr):
    return {'lp': 4, 'body': [{'text': enc, 'attr': attr}]}


def mpint(name=None):
    d = {'sshmpint': 1}
    if name:
        d['name'] = name
    return d


def wrapped(struct):
    """a structure carried inside an RFC 4251 string"""
    return {'lp': 4, 'body': [S(struct)]}


def entry(name, ref, layout):
    T[name] = collections.OrderedDict(ref=ref, layout=layout)


def msg(code_name, body):
    return [{'u': 1, 'name': 'message_code'}] + body


# host keys
entry('SshHostKeyDSS', 'RFC 4253 6.6 "ssh-dss": string, mpint p, q, g, y', [string(), mpint('p'), mpint('q'), mpint('g'), mpint('y')])
entry('SshHostKeyRSA', 'RFC 4253 6.6 "ssh-rsa": string, mpint e, mpint n', [string(), mpint('e'), mpint('n')])
entry('SshHostKeyECDSA', 'RFC 5656 3.1: string "ecdsa-sha2-[identifier]", string [identifier], string Q', [string(), string(), blob('Q')])
entry('SshHostKeyEDDSA', 'RFC 8709 4: string "ssh-ed25519", string key', [string(), blob('key')])
entry('SshCertSignature', 'RFC 4253 6.6 signature blob: string format identifier, string signature', [string(), blob()])
entry('SshString', 'RFC 4251 5 string', [string()])
# messages
namelists = ['SshKexAlgorithmVector', 'SshHostKeyAlgorithmVector', 'SshEncryptionAlgorithmVector', 'SshEncryptionAlgorithmVector',
             'SshMacAlgorithmVector', 'SshMacAlgorithmVector', 'SshCompressionAlgorithmVector', 'SshCompressionAlgorithmVector',
             'SshLanguageVector', 'SshLanguageVector']
kexinit_attrs = ['kex_algorithms', 'host_key_algorithms', 'encryption_algorithms_client_to_server', 'encryption_algorithms_server_to_client',
                 'mac_algorithms_client_to_server', 'mac_algorithms_server_to_client', 'compression_algorithms_client_to_server',
                 'compression_algorithms_server_to_client', 'languages_client_to_server', 'languages_server_to_client']
for n in sorted(set(namelists)):
    entry(n, 'RFC 4251 5 name-list: uint32 length + comma separated US-ASCII names (empty list: length 0)',
          [{'lp': 4, 'body': [{'text': 'ascii'}]}])
entry('SshKeyExchangeInit', 'RFC 4253 7.1 SSH_MSG_KEXINIT', msg('KEXINIT', [{'raw': 16, 'name': 'cookie', 'attr': 'cookie'}] + [dict(S(n), attr=a) for n, a in zip(namelists, kexinit_attrs)] +
                                                                 [{'u': 1, 'name': 'first_kex_packet_follows', 'attr': 'first_kex_packet_follows'}, {'u': 4, 'name': 'reserved', 'attr': 'reserved'}]))
entry('SshDisconnectMessage', 'RFC 4253 11.1 SSH_MSG_DISCONNECT: uint32 reason, string description (ISO-10646 UTF-8), string language tag',
      msg('DISCONNECT', [{'u': 4, 'attr': 'reason'}, string_of('utf-8', 'description'), string_of('ascii', 'language')]))
entry('SshUnimplementedMessage', 'RFC 4253 11.4 SSH_MSG_UNIMPLEMENTED: uint32 sequence number', msg('UNIMPLEMENTED', [{'u': 4, 'attr': 'sequence_number'}]))
entry('SshDHKeyExchangeInit', 'RFC 4253 8 SSH_MSG_KEXDH_INIT: mpint e (uint32 length + bytes)', msg('KEXDH_INIT', [blob_of('ephemeral_public_key')]))
entry('SshDHGroupExchangeInit', 'RFC 4419 3 SSH_MSG_KEX_DH_GEX_INIT: mpint e', msg('GEX_INIT', [blob_of('ephemeral_public_key')]))
entry('SshDHKeyExchangeReply', 'RFC 4253 8 SSH_MSG_KEXDH_REPLY: string K_S, mpint f, string signature',
      msg('KEXDH_REPLY', [wrapped(['SshHostPublicKeyVariant', 'SshPublicKeyBase']), blob_of('ephemeral_public_key'), blob_of('signature')]))
entry('SshDHGroupExchangeReply', 'RFC 4419 3 SSH_MSG_KEX_DH_GEX_REPLY: string K_S, mpint f, string signature',
      msg('GEX_REPLY', [wrapped(['SshHostPublicKeyVariant', 'SshPublicKeyBase']), blob_of('ephemeral_public_key'), blob_of('signature')]))
entry('SshDHGroupExchangeRequest', 'RFC 4419 3 SSH_MSG_KEX_DH_GEX_REQUEST: uint32 min, uint32 n, uint32 max', msg('GEX_REQUEST', [{'u': 4, 'name': 'min', 'attr': 'gex_min'}, {'u': 4, 'name': 'n', 'attr': 'gex_number'}, {'u': 4, 'name': 'max', 'attr': 'gex_max'}]))
entry('SshDHGroupExchangeGroup', 'RFC 4419 3 SSH_MSG_KEX_DH_GEX_GROUP: mpint p, mpint g', msg('GEX_GROUP', [blob_of('p'), blob_of('g')]))
entry('SshNewKeys', 'RFC 4253 7.3 SSH_MSG_NEWKEYS', msg('NEWKEYS', []))
# binary packet
for n, v in (('SshRecordInit', 'SshMessageVariantInit'), ('SshRecordKexDH', 'SshMessageVariantKexDH'), ('SshRecordKexDHGroup', 'SshMessageVariantKexDHGroup')):
    entry(n, 'RFC 4253 6: uint32 packet_length, byte padding_length, byte[n1] payload, byte[n2] random padding',
          [{'u': 4, 'name': 'packet_length'}, {'len': 1, 'of': ['padding'], 'name': 'padding_length'}, S([v, 'SshMessageBase']), {'raw': '*', 'name': 'padding'}])
# certificates (OpenSSH PROTOCOL.certkeys)
def A(item, attr):
    """the item carries the named attribute of the object (checked on both sides)"""
    return dict(item, attr=attr)


tail_v01 = [A({'u': 8, 'name': 'serial'}, 'serial'), {'u': 4, 'name': 'type'}, string(name='key id'), A(S('SshCertValidPrincipals'), 'valid_principals'),
            A({'ts': 8, 'name': 'valid after'}, 'valid_after'), A({'ts': 8, 'name': 'valid before'}, 'valid_before'),
            A(S('SshCertCriticalOptionVector'), 'critical_options'), A(S('SshCertExtensionVector'), 'extensions'),
            blob('reserved'), wrapped(['SshCertSignatureKeyVariant', 'SshHostPublicKeyVariant', 'SshPublicKeyBase']), wrapped(['SshCertSignature'])]
tail_v00 = [{'u': 4, 'name': 'type'}, string(name='key id'), A(S('SshCertValidPrincipals'), 'valid_principals'), A({'ts': 8}, 'valid_after'), A({'ts': 8}, 'valid_before'),
            A(S('SshCertConstraintVector'), 'constraints'),
            blob('nonce'), blob('reserved'), wrapped(['SshCertSignatureKeyVariant', 'SshHostPublicKeyVariant', 'SshPublicKeyBase']), wrapped(['SshCertSignature'])]
keys = {'DSS': [mpint('p'), mpint('q'), mpint('g'), mpint('y')], 'RSA': [mpint('e'), mpint('n')],
        'ECDSA': [string(), blob('public_key')], 'EDDSA': [blob('pk')]}
for k in ('DSS', 'RSA', 'ECDSA', 'EDDSA'):
    for suffix in ('Base', ''):
        entry('SshHostCertificateV01%s%s' % (k, suffix), 'OpenSSH PROTOCOL.certkeys v01 %s certificate' % k, [string(), blob('nonce')] + keys[k] + tail_v01)
for k in ('DSS', 'RSA'):
    for suffix in ('Base', ''):
        entry('SshHostCertificateV00%s%s' % (k, suffix), 'OpenSSH PROTOCOL.certkeys v00 %s certificate' % k, [string()] + keys[k] + tail_v00)
entry('SshCertValidPrincipals', 'PROTOCOL.certkeys: string valid principals = sequence of strings', [{'lp': 4, 'body': [{'repeat': [S('SshString')]}]}])
for n, items in (('SshCertConstraintVector', ['SshCertExtensionParsed', 'SshCertExtensionUnparsed']),
                 ('SshCertExtensionVector', ['SshCertExtensionVariant', 'SshCertExtensionUnparsed', 'SshCertExtensionParsed']),
                 ('SshCertCriticalOptionVector', ['SshCertCriticalOptionVariant', 'SshCertExtensionUnparsed', 'SshCertExtensionParsed'])):
    entry(n, 'PROTOCOL.certkeys: string holding a sequence of (string name, string data) tuples', [{'lp': 4, 'body': [{'repeat': [S(items)]}]}])
entry('SshCertExtensionUnparsed', 'PROTOCOL.certkeys option: string name, string data', [string(), blob()])
for n in ('SshCertExtensionNoPrecenseRequired', 'SshCertExtensionPermitX11Forwarding', 'SshCertExtensionPermitAgentForwarding',
          'SshCertExtensionPermitPortForwarding', 'SshCertExtensionPermitPTY', 'SshCertExtensionPermitUserRC'):
    entry(n, 'PROTOCOL.certkeys flag option: string name, empty string data', [string(), {'u': 4, 'name': 'data length (0)'}])
entry('SshX509CertificateChain', 'RFC 6187 4: string algorithm, uint32 certificate-count, string certificate[1..n], uint32 ocsp-response-count, string ocsp-response[0..m]',
      [string(), {'u': 4}, {'repeat': [blob()]}, {'u': 4}, {'repeat': [blob()]}])

REG = collections.OrderedDict()
REG['SshMessageCode'] = dict(ref='RFC 4253 12 / RFC 4419 5 message numbers', values={
    'DISCONNECT': 1, 'IGNORE': 2, 'UNIMPLEMENTED': 3, 'DEBUG': 4, 'SERVICE_REQUEST': 5, 'SERVICE_ACCEPT': 6, 'KEXINIT': 20, 'NEWKEYS': 21,
    'DH_KEX_INIT': 30, 'DH_KEX_REPLY': 31, 'DH_GEX_GROUP': 31, 'DH_GEX_INIT': 32, 'DH_GEX_REPLY': 33, 'DH_GEX_REQUEST': 34})
REG['SshReasonCode'] = dict(ref='RFC 4253 11.1 disconnect reason codes', values={
    'HOST_NOT_ALLOWED_TO_CONNECT': 1, 'PROTOCOL_ERROR': 2, 'KEY_EXCHANGE_FAILED': 3, 'RESERVED': 4, 'MAC_ERROR': 5, 'COMPRESSION_ERROR': 6,
    'SERVICE_NOT_AVAILABLE': 7, 'PROTOCOL_VERSION_NOT_SUPPORTED': 8, 'HOST_KEY_NOT_VERIFIABLE': 9, 'CONNECTION_LOST': 10,
    'BY_APPLICATION': 11, 'TOO_MANY_CONNECTIONS': 12, 'AUTH_CANCELLED_BY_USER': 13, 'NO_MORE_AUTH_METHODS_AVAILABLE': 14, 'ILLEGAL_USER_NAME': 15})
REG['SshCertType'] = dict(ref='PROTOCOL.certkeys SSH_CERT_TYPE_USER 1 / SSH_CERT_TYPE_HOST 2', values={'SSH_CERT_TYPE_USER': 1, 'SSH_CERT_TYPE_HOST': 2})
REG['SshVersion'] = dict(ref='RFC 4253 4.2 protoversion', values={'SSH1': 1, 'SSH2': 2})

NOT_WIRE = {
    'SshProtocolMessage': 'text banner: checked by the banner rule C07.R6',
    'SshX509Certificate': 'DER certificate (asn1crypto)',
    'SshCertExtensionName': 'string enum (names are data of the dependency)',
    'NetworkVector': 'comma separated address list inside a string (text DSL)',
    'SshCertExtensionForceCommand': 'text valued option: name string + command string',
    'SshCertExtensionSourceAddress': 'text valued option',
}

if __name__ == '__main__':
    out = collections.OrderedDict(structures=T, registries=REG, not_wire=NOT_WIRE)
    with open(os.path.join(os.path.dirname(os.path.abspath(__file__)), 'ssh.json'), 'w') as f:
        json.dump(out, f, indent=1)
    print('ssh.json: %d structures, %d registries' % (len(T), len(REG)))
