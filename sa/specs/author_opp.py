"""Authoring helper for sa/specs/opp.json: MySQL client/server protocol (Connection Phase), [MS-RDPBCGR] 2.2.1.1-2,
RFC 1006 / ISO 8073 (X.224), OpenVPN protocol notes (control channel), PostgreSQL frontend/backend protocol (SSLRequest),
RFC 4511/4513 (LDAP StartTLS)."""
import collections
import json
import os

T = collections.OrderedDict()


def entry(name, ref, layout, order=None):
    e = collections.OrderedDict(ref=ref)
    if order:
        e['order'] = order
    e['layout'] = layout
    T[name] = e


entry('MySQLRecord', 'MySQL protocol basic packet: int<3> payload_length (little endian), int<1> sequence_id, payload', [
    {'len': 3, 'of': ['payload'], 'attr': None}, {'u': 1, 'attr': 'packet_number'}, {'raw': '*', 'name': 'payload', 'attr': 'packet_bytes'}], order='le')
entry('MySQLHandshakeV10', 'MySQL Protocol::HandshakeV10', [
    {'u': 1, 'attr': 'protocol_version'}, {'strz': 'ascii', 'attr': 'server_version'}, {'u': 4, 'attr': 'connection_id'},
    {'raw': 8, 'attr': 'auth_plugin_data'}, {'const': 1, 'name': 'filler'}, {'flags': 2, 'shift': 0, 'attr': 'capabilities'},
    {'u': 1, 'attr': 'character_set'}, {'flags': 2, 'shift': 0, 'attr': 'states'}, {'flags': 2, 'shift': 16, 'attr': 'capabilities'},
    {'len': 1, 'of': ['part2'], 'adj': 8, 'name': 'auth_plugin_data_len'}, {'const': 10, 'name': 'reserved'},
    {'opt': [{'raw': '*', 'name': 'part2', 'attr': 'auth_plugin_data_2'}]}, {'opt': [{'strz': 'ascii', 'attr': 'auth_plugin_name'}]}], order='le')
entry('OpenVpnPacketWrapperTcp', 'OpenVPN over TCP: 16 bit big-endian packet length prefix', [{'lp': 2, 'body': [{'raw': '*', 'attr': 'payload'}]}])
ovpn_head = [{'u': 1, 'name': 'opcode<<3|key_id'}, {'u': 8, 'attr': 'session_id'}, {'len': 1, 'of': ['acks'], 'unit': 'count'},
             {'opt': [{'array': {'u': 4}, 'name': 'acks', 'attr': 'packet_id_array'}, {'u': 8, 'attr': 'remote_session_id'}]}]
entry('OpenVpnPacketControlV1', 'OpenVPN P_CONTROL_V1: header, packet id(4), TLS payload', ovpn_head + [{'u': 4, 'attr': 'packet_id'}, {'raw': '*', 'attr': 'payload'}])
entry('OpenVpnPacketAckV1', 'OpenVPN P_ACK_V1: header only', ovpn_head)
# the first packet of a session acknowledges nothing: the ack array is empty (the parser refuses anything else) and no remote session id follows
ovpn_head_first = [ovpn_head[0], ovpn_head[1], ovpn_head[2],
                   {'opt': [dict(ovpn_head[3]['opt'][0], carried=False), dict(ovpn_head[3]['opt'][1], carried=False)]}]
entry('OpenVpnPacketHardResetClientV2', 'OpenVPN P_CONTROL_HARD_RESET_CLIENT_V2: header (no acks), packet id(4)', ovpn_head_first + [{'u': 4, 'attr': 'packet_id'}])
entry('OpenVpnPacketHardResetServerV2', 'OpenVPN P_CONTROL_HARD_RESET_SERVER_V2: header, packet id(4)', ovpn_head + [{'u': 4, 'attr': 'packet_id'}])
entry('Sync', "PostgreSQL SSLRequest response: single byte 'S'", [{'raw': 1}])
entry('SslRequest', 'PostgreSQL SSLRequest: Int32(8) length, Int32(80877103) request code', [{'u': 4}, {'u': 4}])
entry('TPKT', 'RFC 1006 6: vrsn(1)=3, reserved(1), packet length(2) including the 4 header octets', [
    {'u': 1, 'attr': 'version'}, {'u': 1, 'name': 'reserved'}, {'len': 2, 'of': ['tpdu'], 'adj': 4}, {'raw': '*', 'name': 'tpdu', 'attr': 'message'}])
for n in ('COTPConnectionRequest', 'COTPConnectionConfirm'):
    entry(n, 'ISO 8073 13.3/13.4 (X.224) CR/CC TPDU: LI(1), code(1), DST-REF(2), SRC-REF(2), class option(1), user data; [MS-RDPBCGR] 2.2.1.1 (LI counts everything after itself)', [
        {'len': 1, 'of': ['user_data'], 'adj': 6}, {'u': 1, 'name': 'code'}, {'u': 2, 'attr': 'dst_ref'}, {'u': 2, 'attr': 'src_ref'},
        {'u': 1, 'attr': 'class_option'}, {'raw': '*', 'name': 'user_data', 'attr': 'user_data'}])
for n in ('RDPNegotiationRequest', 'RDPNegotiationResponse'):
    entry(n, '[MS-RDPBCGR] 2.2.1.1.1 / 2.2.1.2.1: type(1), flags(1), length(2 LE)=8, protocols(4 LE)', [
        {'u': 1, 'name': 'type'}, {'flags': 1, 'shift': 0, 'attr': 'flags'}, {'u': 2, 'name': 'length'}, {'flags': 4, 'shift': 0, 'attr': 'protocol'}], order='le')

REG = collections.OrderedDict()
REG['MySQLCapability'] = dict(ref='MySQL Capabilities Flags', values=collections.OrderedDict([
    ('CLIENT_LONG_PASSWORD', 1), ('CLIENT_FOUND_ROWS', 2), ('CLIENT_LONG_FLAG', 4), ('CLIENT_CONNECT_WITH_DB', 8), ('CLIENT_NO_SCHEMA', 16),
    ('CLIENT_COMPRESS', 32), ('CLIENT_ODBC', 64), ('CLIENT_LOCAL_FILES', 128), ('CLIENT_IGNORE_SPACE', 256), ('CLIENT_PROTOCOL_41', 512),
    ('CLIENT_INTERACTIVE', 1024), ('CLIENT_SSL', 2048), ('CLIENT_IGNORE_SIGPIPE', 4096), ('CLIENT_TRANSACTIONS', 8192), ('CLIENT_RESERVED', 16384),
    ('CLIENT_SECURE_CONNECTION', 32768), ('CLIENT_MULTI_STATEMENTS', 1 << 16), ('CLIENT_MULTI_RESULTS', 1 << 17), ('CLIENT_PS_MULTI_RESULTS', 1 << 18),
    ('CLIENT_PLUGIN_AUTH', 1 << 19), ('CLIENT_CONNECT_ATTRS', 1 << 20), ('CLIENT_PLUGIN_AUTH_LENENC_CLIENT_DATA', 1 << 21),
    ('CLIENT_CAN_HANDLE_EXPIRED_PASSWORDS', 1 << 22), ('CLIENT_SESSION_TRACK', 1 << 23), ('CLIENT_DEPRECATE_EOF', 1 << 24)]))
REG['MySQLStatusFlag'] = dict(ref='MySQL SERVER_STATUS_flags_enum', values={
    'SERVER_STATUS_IN_TRANS': 1, 'SERVER_STATUS_AUTOCOMMIT': 2, 'SERVER_MORE_RESULTS_EXISTS': 8, 'SERVER_STATUS_NO_GOOD_INDEX_USED': 16,
    'SERVER_STATUS_NO_INDEX_USED': 32, 'SERVER_STATUS_CURSOR_EXISTS': 64, 'SERVER_STATUS_LAST_ROW_SENT': 128, 'SERVER_STATUS_DB_DROPPED': 256,
    'SERVER_STATUS_NO_BACKSLASH_ESCAPES': 512, 'SERVER_STATUS_METADATA_CHANGED': 1024, 'SERVER_QUERY_WAS_SLOW': 2048, 'SERVER_PS_OUT_PARAMS': 4096})
REG['COTPType'] = dict(ref='ISO 8073 13.1 TPDU codes (high nibble)', values={
    'CONNECTION_REQUEST': 0xe, 'CONNECTION_CONFIRM': 0xd, 'DISCONNECT_REQUEST': 0x8, 'DISCONNECT_CONFIRM': 0xc, 'DATA': 0xf,
    'EXPEDITED_DATA': 0x1, 'DATA_ACKNOWLEDGEMENT': 0x6, 'EXPEDITED_DATA_ANOWLEDGEMENT': 0x2, 'REJECT': 0x5})
REG['RDPProtocol'] = dict(ref='[MS-RDPBCGR] 2.2.1.1.1 requestedProtocols', values={'RDP': 0, 'SSL': 1, 'HYBRID': 2, 'RDSTLS': 4, 'HYBRID_EX': 8})
REG['RDPNegotiationRequestFlags'] = dict(ref='[MS-RDPBCGR] 2.2.1.1.1 flags', values={
    'RESTRICTED_ADMIN_MODE_REQUIRED': 1, 'REDIRECTED_AUTHENTICATION_MODE_REQUIRED': 2, 'CORRELATION_INFO_PRESENT': 8})
REG['RDPNegotiationResponseFlags'] = dict(ref='[MS-RDPBCGR] 2.2.1.2.1 flags', values={
    'EXTENDED_CLIENT_DATA_SUPPORTED': 1, 'DYNVC_GFX_PROTOCOL_SUPPORTED': 2, 'NEGRSP_FLAG_RESERVED': 4, 'RESTRICTED_ADMIN_MODE_SUPPORTED': 8,
    'REDIRECTED_AUTHENTICATION_MODE_SUPPORTED': 16})
REG['RDPPacketType'] = dict(ref='[MS-RDPBCGR] TYPE_RDP_NEG_REQ 1 / TYPE_RDP_NEG_RSP 2', values={'NEG_REQ': 1, 'NEG_RSP': 2})
REG['OpenVpnOpCode'] = dict(ref='OpenVPN ssl.h P_* opcodes', values={'CONTROL_V1': 4, 'ACK_V1': 5, 'HARD_RESET_CLIENT_V2': 7, 'HARD_RESET_SERVER_V2': 8})
REG['LDAPResultCode'] = dict(ref='RFC 4511 4.1.9 resultCode', values={
    'SUCCESS': 0, 'OPERATIONS_ERROR': 1, 'PROTOCOL_ERROR': 2, 'TIME_LIMIT_EXCEEDED': 3, 'SIZE_LIMIT_EXCEEDED': 4, 'COMPARE_FALSE': 5, 'COMPARE_TRUE': 6,
    'AUTH_METHOD_NOT_SUPPORTED': 7, 'STRONGER_AUTH_REQUIRED': 8, 'REFERRAL': 10, 'ADMIN_LIMIT_EXCEEDED': 11, 'UNAVAILABLE_CRITICAL_EXTENSION': 12,
    'CONFIDENTIALITY_REQUIRED': 13, 'SASL_BIND_IN_PROGRESS': 14, 'NO_SUCH_ATTRIBUTE': 16, 'UNDEFINED_ATTRIBUTE_TYPE': 17, 'INAPPROPRIATE_MATCHING': 18,
    'CONSTRAINT_VIOLATION': 19, 'ATTRIBUTE_OR_VALUE_EXISTS': 20, 'INVALID_ATTRIBUTE_SYNTAX': 21, 'NO_SUCH_OBJECT': 32, 'ALIAS_PROBLEM': 33,
    'INVALID_DN_SYNTAX': 34, 'ALIAS_DEREFERENCING_PROBLEM': 36, 'INAPPROPRIATE_AUTHENTICATION': 48, 'INVALID_CREDENTIALS': 49,
    'INSUFFICIENT_ACCESS_RIGHTS': 50, 'BUSY': 51, 'UNAVAILABLE': 52, 'UNWILLING_TO_PERFORM': 53, 'LOOP_DETECT': 54, 'NAMING_VIOLATION': 64,
    'OBJECT_CLASS_VIOLATION': 65, 'NOT_ALLOWED_ON_NON_LEAF': 66, 'NOT_ALLOWED_ON_RDN': 67, 'ENTRY_ALREADY_EXISTS': 68,
    'OBJECT_CLASS_MODS_PROHIBITED': 69, 'AFFECTS_MULTIPLE_DSAS': 71, 'OTHER': 80})
REG['LDAPClass'] = dict(ref='X.690 tag classes', values={'UNIVERSAL': 0, 'APPLICATION': 1, 'CONTEXT': 2})

LDAP = collections.OrderedDict([
    ('LDAPMessage', {'ref': 'RFC 4511 4.1.1', 'fields': [['messageID', 'Integer', {}], ['protocolOp', 'LDAPProtocolOp', {}],
                                                         ['controls', 'LDAPControls', {'implicit': [2, 0], 'optional': True}]]}),
    ('LDAPProtocolOp', {'ref': 'RFC 4511 4.12: ExtendedRequest [APPLICATION 23], ExtendedResponse [APPLICATION 24]',
                        'alternatives': [['extendedReq', 'LDAPExtendedRequest', {'implicit': [1, 23]}], ['extendedResp', 'LDAPExtendedResponse', {'implicit': [1, 24]}]]}),
    ('LDAPExtendedRequest', {'ref': 'RFC 4511 4.12', 'fields': [['requestName', 'LDAPOID', {'implicit': [2, 0]}],
                                                                ['requestValue', 'OctetString', {'implicit': [2, 1], 'optional': True}]]}),
    ('LDAPExtendedResponse', {'ref': 'RFC 4511 4.12 (COMPONENTS OF LDAPResult + responseName [10] + responseValue [11])', 'fields': [
        ['resultCode', 'LDAPResultCodeEnum', {}], ['matchedDN', 'LDAPDN', {}], ['diagnosticMessage', 'LDAPString', {}],
        ['referral', 'LDAPReferral', {'implicit': [2, 3], 'optional': True}], ['responseName', 'LDAPOID', {'implicit': [2, 10], 'optional': True}],
        ['responseValue', 'OctetString', {'implicit': [2, 11], 'optional': True}]]}),
    ('LDAPControl', {'ref': 'RFC 4511 4.1.11', 'fields': [['controlType', 'LDAPOID', {}], ['criticality', 'Boolean', {'default': False}],
                                                          ['controlValue', 'OctetString', {'optional': True}]]}),
])
CONSTANTS = {'starttls_oid': '1.3.6.1.4.1.1466.20037', 'postgresql_sslrequest_code': 80877103, 'postgresql_sslrequest_length': 8,
             'tpkt_version': 3, 'rdp_negotiation_length': 8}
NOT_WIRE = {'MySQLHandshakeSslRequest': 'compared by the reviewed split-flag rule (C01) and C09.R5',
            'LDAPExtendedRequestStartTLS': 'BER (asn1crypto): schema tables compared by C09.R6',
            'LDAPExtendedResponseStartTLS': 'BER (asn1crypto): schema tables compared by C09.R6'}

if __name__ == '__main__':
    out = collections.OrderedDict(structures=T, registries=REG, ldap=LDAP, constants=CONSTANTS, not_wire=NOT_WIRE)
    with open(os.path.join(os.path.dirname(os.path.abspath(__file__)), 'opp.json'), 'w') as f:
        json.dump(out, f, indent=1)
    print('opp.json: %d structures, %d registries' % (len(T), len(REG)))
