"""Authoring helper for sa/specs/tls.json (run: python3 sa/specs/author_tls.py).  The table is written from the
RFC text (section given per entry), in the vocabulary of sa/spec.py.  It is data, not derived from /repo."""
import collections
import json
import os

T = collections.OrderedDict()


def vec(floor, ceiling, item):
    return {'vector': {'floor': floor, 'ceiling': ceiling, 'item': item}}


def S(name):
    return {'struct': name}


def ext(body):
    """RFC 5246 7.4.1.4: struct { ExtensionType extension_type; opaque extension_data<0..2^16-1>; }"""
    return [{'u': 2, 'name': 'extension_type'}, {'lp': 2, 'body': body}]


def hs(body):
    """RFC 5246 7.4: struct { HandshakeType msg_type; uint24 length; body }"""
    return [{'u': 1, 'name': 'msg_type'}, {'lp': 3, 'body': body}]


def entry(name, ref, layout=None, **kw):
    e = collections.OrderedDict(ref=ref)
    if layout is not None:
        e['layout'] = layout
    e.update(kw)
    T[name] = e


# ---- record layer --------------------------------------------------------------------------------------------
entry('TlsProtocolVersion', 'RFC 5246 6.2.1 ProtocolVersion { uint8 major; uint8 minor; } (two bytes, major first)', [{'u': 2}])
entry('TlsRecord', 'RFC 5246 6.2.1 TLSPlaintext', [{'u': 1, 'name': 'type'}, S('TlsProtocolVersion'), {'lp': 2, 'body': [{'raw': '*'}]}])
entry('TlsAlertMessage', 'RFC 5246 7.2 Alert { AlertLevel level; AlertDescription description; }', [{'u': 1}, {'u': 1}])
entry('TlsChangeCipherSpecMessage', 'RFC 5246 7.1 ChangeCipherSpec { enum { change_cipher_spec(1) } type; }', [{'u': 1}])
entry('TlsApplicationDataMessage', 'RFC 5246 10 application data: opaque', [{'raw': '*'}])
# ---- handshake -------------------------------------------------------------------------------------------------
entry('TlsHandshakeHelloRandomBytes', 'RFC 5246 7.4.1.2 opaque random_bytes[28] (fixed length, no prefix)', [{'raw': 28}])
entry('TlsHandshakeHelloRandom', 'RFC 5246 7.4.1.2 Random { uint32 gmt_unix_time; opaque random_bytes[28]; }', [{'u': 4}, S('TlsHandshakeHelloRandomBytes')])
T['TlsSessionIdVector'] = dict(ref='RFC 5246 7.4.1.2 opaque SessionID<0..32>', **vec(0, 32, {'u': 1}))
T['TlsCipherSuiteVector'] = dict(ref='RFC 5246 7.4.1.2 CipherSuite cipher_suites<2..2^16-2> (uint8[2] each)', **vec(2, 2 ** 16 - 2, {'u': 2}))
T['TlsCompressionMethodVector'] = dict(ref='RFC 5246 7.4.1.2 CompressionMethod compression_methods<1..2^8-1>', **vec(1, 2 ** 8 - 1, {'u': 1}))
T['TlsExtensionsClient'] = dict(ref='RFC 5246 7.4.1.2 Extension extensions<0..2^16-1>', **vec(0, 2 ** 16 - 1, S(['TlsExtensionVariantClient', 'TlsExtensionUnparsed'])))
T['TlsExtensionsServer'] = dict(ref='RFC 5246 7.4.1.3 Extension extensions<0..2^16-1>', **vec(0, 2 ** 16 - 1, S(['TlsExtensionVariantServer', 'TlsExtensionUnparsed'])))
entry('TlsHandshakeClientHello', 'RFC 5246 7.4.1.2 ClientHello', hs([
    S('TlsProtocolVersion'), S('TlsHandshakeHelloRandom'), S('TlsSessionIdVector'), S('TlsCipherSuiteVector'),
    S('TlsCompressionMethodVector'), {'opt': [S('TlsExtensionsClient')]}]))
entry('TlsHandshakeServerHello', 'RFC 5246 7.4.1.3 ServerHello', hs([
    S('TlsProtocolVersion'), S('TlsHandshakeHelloRandom'), S('TlsSessionIdVector'), {'u': 2, 'name': 'cipher_suite'},
    {'u': 1, 'name': 'compression_method'}, {'opt': [S('TlsExtensionsServer')]}]))
entry('TlsHandshakeHelloRetryRequest', 'RFC 8446 4.1.4: a ServerHello with the special Random', hs([
    S('TlsProtocolVersion'), S('TlsHandshakeHelloRandom'), S('TlsSessionIdVector'), {'u': 2}, {'u': 1}, {'opt': [S('TlsExtensionsServer')]}]))
entry('TlsCertificate', 'RFC 5246 7.4.2 opaque ASN.1Cert<1..2^24-1>', [{'lp': 3, 'body': [{'raw': '*'}]}])
T['TlsCertificates'] = dict(ref='RFC 5246 7.4.2 ASN.1Cert certificate_list<0..2^24-1>', **vec(0, 2 ** 24 - 1, S('TlsCertificate')))
entry('TlsHandshakeCertificate', 'RFC 5246 7.4.2 Certificate', hs([S('TlsCertificates')]))
entry('TlsHandshakeCertificateStatus', 'RFC 6066 8 CertificateStatus { CertificateStatusType status_type; opaque OCSPResponse<1..2^24-1>; }',
      hs([{'u': 1}, {'lp': 3, 'body': [{'raw': '*'}]}]))
entry('TlsHandshakeServerHelloDone', 'RFC 5246 7.4.5 struct { } ServerHelloDone', hs([]))
entry('TlsHandshakeServerKeyExchange', 'RFC 5246 7.4.3 ServerKeyExchange (algorithm dependent params, kept opaque)', hs([{'raw': '*'}]))
T['TlsClientCertificateTypeVector'] = dict(ref='RFC 5246 7.4.4 ClientCertificateType certificate_types<1..2^8-1>', **vec(1, 2 ** 8 - 1, {'u': 1}))
T['TlsDistinguishedName'] = dict(ref='RFC 5246 7.4.4 opaque DistinguishedName<1..2^16-1>', **vec(1, 2 ** 16 - 1, {'raw': 1}))
T['TlsDistinguishedNameVector'] = dict(ref='RFC 5246 7.4.4 DistinguishedName certificate_authorities<0..2^16-1>', **vec(0, 2 ** 16 - 1, S('TlsDistinguishedName')))
entry('TlsHandshakeCertificateRequest', 'RFC 5246 7.4.4 CertificateRequest (supported_signature_algorithms only from TLS 1.2 on)', hs([
    S('TlsClientCertificateTypeVector'), {'opt': [S('TlsSignatureAndHashAlgorithmVector')]}, S('TlsDistinguishedNameVector')]))
# ---- SSL 2.0 (draft-hickman-netscape-ssl-00) ------------------------------------------------------------------
entry('SslErrorMessage', 'SSL 2.0 5.7 ERROR: char MSG-ERROR (in the record); char ERROR-CODE-MSB; char ERROR-CODE-LSB', [{'u': 2}])
entry('SslHandshakeClientHello', 'SSL 2.0 5.5 CLIENT-HELLO (CLIENT-VERSION is a value of the message: an SSLv2 format hello may announce 3.x)', [
    dict(S('TlsProtocolVersion'), attr='version'), {'len': 2, 'of': ['cipher_specs']}, {'len': 2, 'of': ['session_id']}, {'len': 2, 'of': ['challenge']},
    {'array': {'u': 3}, 'name': 'cipher_specs'}, {'raw': '*', 'name': 'session_id'}, {'raw': '*', 'name': 'challenge'}])
entry('SslHandshakeServerHello', 'SSL 2.0 5.6 SERVER-HELLO', [
    {'u': 1, 'name': 'session_id_hit', 'attr': 'session_id_hit'}, {'u': 1, 'name': 'certificate_type'}, dict(S('TlsProtocolVersion'), attr='version'),
    {'len': 2, 'of': ['certificate']}, {'len': 2, 'of': ['cipher_specs']}, {'len': 2, 'of': ['connection_id']},
    {'raw': '*', 'name': 'certificate'}, {'array': {'u': 3}, 'name': 'cipher_specs'}, {'raw': '*', 'name': 'connection_id'}])
# ---- extensions ------------------------------------------------------------------------------------------------
entry('TlsInvalidTypeOneByte', 'any 1 byte code point kept verbatim', [{'u': 1}])
entry('TlsInvalidTypeTwoByte', 'any 2 byte code point kept verbatim', [{'u': 2}])
entry('TlsExtensionUnparsed', 'RFC 5246 7.4.1.4 Extension', ext([{'raw': '*'}]))
T['TlsServerName'] = dict(ref='RFC 6066 3 opaque HostName<1..2^16-1>', **vec(1, 2 ** 16 - 1, {'u': 1}))
entry('TlsExtensionServerNameClient', 'RFC 6066 3 ServerNameList server_name_list<1..2^16-1> of { NameType name_type; HostName }',
      ext([{'lp': 2, 'body': [{'u': 1, 'name': 'name_type'}, S('TlsServerName')]}]))
for n in ('TlsExtensionServerNameServer', 'TlsExtensionCertificateStatusRequestServer', 'TlsExtensionNextProtocolNegotiationClient',
          'TlsExtensionChannelId', 'TlsExtensionEncryptThenMAC', 'TlsExtensionExtendedMasterSecret', 'TlsExtensionShortRecordHeader',
          'TlsExtensionSignedCertificateTimestampClient'):
    entry(n, 'RFC 6066 3/8, RFC 7366, RFC 7627, RFC 6962 3.3.1, draft NPN/channel id: extension_data is empty', ext([]))
T['TlsECPointFormatVector'] = dict(ref='RFC 4492 5.1.2 ECPointFormat ec_point_format_list<1..2^8-1>', **vec(1, 2 ** 8 - 1, {'u': 1}))
entry('TlsExtensionECPointFormats', 'RFC 4492 5.1.2', ext([S('TlsECPointFormatVector')]))
T['TlsEllipticCurveVector'] = dict(ref='RFC 4492 5.1.1 NamedCurve elliptic_curve_list<1..2^16-1> (RFC 8422: <2..2^16-1>)', **vec(2, 2 ** 16 - 1, {'u': 2}))
entry('TlsExtensionEllipticCurves', 'RFC 4492 5.1.1 / RFC 8446 4.2.7', ext([S('TlsEllipticCurveVector')]))
T['TlsSupportedVersionVector'] = dict(ref='RFC 8446 4.2.1 ProtocolVersion versions<2..254>', **vec(2, 254, S(['TlsProtocolVersion', 'TlsInvalidTypeTwoByte'])))
entry('TlsExtensionSupportedVersionsClient', 'RFC 8446 4.2.1 (client hello)', ext([S('TlsSupportedVersionVector')]))
entry('TlsExtensionSupportedVersionsServer', 'RFC 8446 4.2.1 (server hello): ProtocolVersion selected_version', ext([S('TlsProtocolVersion')]))
T['TlsSignatureAndHashAlgorithmVector'] = dict(ref='RFC 5246 7.4.1.4.1 supported_signature_algorithms<2..2^16-2>', **vec(2, 2 ** 16 - 2, {'u': 2}))
for n in ('TlsExtensionSignatureAlgorithms', 'TlsExtensionSignatureAlgorithmsCert', 'TlsExtensionDelegatedCredentials'):
    entry(n, 'RFC 5246 7.4.1.4.1 / RFC 8446 4.2.3 / RFC 9345 4.1.1', ext([S('TlsSignatureAndHashAlgorithmVector')]))
T['TlsKeyExchangeVector'] = dict(ref='RFC 8446 4.2.8 opaque key_exchange<1..2^16-1>', **vec(1, 2 ** 16 - 1, {'u': 1}))
entry('TlsKeyShareEntry', 'RFC 8446 4.2.8 KeyShareEntry { NamedGroup group; opaque key_exchange<1..2^16-1>; }', [{'u': 2}, S('TlsKeyExchangeVector')])
entry('TlsKeyShareEntryInvalidType', 'RFC 8446 4.2.8 KeyShareEntry with an unknown/GREASE group', [S('TlsInvalidTypeTwoByte'), {'lp': 2, 'body': [{'raw': '*'}]}])
T['TlsKeyShareEntryVector'] = dict(ref='RFC 8446 4.2.8 KeyShareEntry client_shares<0..2^16-1>', **vec(0, 2 ** 16 - 1, S(['TlsKeyShareEntry', 'TlsKeyShareEntryInvalidType'])))
entry('TlsExtensionKeyShareServer', 'RFC 8446 4.2.8 KeyShareServerHello', ext([S('TlsKeyShareEntry')]))
entry('TlsExtensionKeyShareClientHelloRetry', 'RFC 8446 4.2.8 KeyShareHelloRetryRequest { NamedGroup selected_group; }', ext([{'u': 2}]))
for n in ('TlsExtensionKeyShareClient', 'TlsExtensionKeyShareReservedClient'):
    entry(n, 'RFC 8446 4.2.8 KeyShareClientHello', ext([S('TlsKeyShareEntryVector')]))
T['TlsCertificateStatusRequestExtensions'] = dict(ref='RFC 6066 8 Extensions request_extensions<0..2^16-1>', **vec(0, 2 ** 16 - 1, {'raw': 1}))
T['TlsCertificateStatusRequestResponderId'] = dict(ref='RFC 6066 8 opaque ResponderID<1..2^16-1>', **vec(1, 2 ** 16 - 1, {'raw': 1}))
T['TlsCertificateStatusRequestResponderIdList'] = dict(ref='RFC 6066 8 ResponderID responder_id_list<0..2^16-1>', **vec(0, 2 ** 16 - 1, S('TlsCertificateStatusRequestResponderId')))
entry('TlsExtensionCertificateStatusRequestClient', 'RFC 6066 8 CertificateStatusRequest { status_type; OCSPStatusRequest }',
      ext([{'u': 1}, S('TlsCertificateStatusRequestResponderIdList'), S('TlsCertificateStatusRequestExtensions')]))
T['TlsRenegotiatedConnection'] = dict(ref='RFC 5746 3.2 opaque renegotiated_connection<0..255>', **vec(0, 255, {'raw': 1}))
entry('TlsExtensionRenegotiationInfo', 'RFC 5746 3.2', ext([S('TlsRenegotiatedConnection')]))
entry('TlsExtensionSessionTicket', 'RFC 5077 3.2: extension_data is the ticket', ext([{'raw': '*'}]))
T['TlsProtocolNameFactory'] = dict(ref='RFC 7301 3.1 opaque ProtocolName<1..2^8-1>', **vec(1, 2 ** 8 - 1, {'u': 1}))
T['TlsProtocolNameList'] = dict(ref='RFC 7301 3.1 ProtocolName protocol_name_list<2..2^16-1>', **vec(2, 2 ** 16 - 1, S('TlsProtocolNameFactory')))
for n in ('TlsExtensionApplicationLayerProtocolNegotiation', 'TlsExtensionApplicationLayerProtocolSettings'):
    entry(n, 'RFC 7301 3.1 / draft-vvv-tls-alps', ext([S('TlsProtocolNameList')]))
T['TlsNextProtocolNameFactory'] = dict(ref='draft-agl-tls-nextprotoneg-04 3: length prefixed protocol name (1..255)', **vec(1, 2 ** 8 - 1, {'u': 1}))
T['TlsNextProtocolNameList'] = dict(ref='draft-agl-tls-nextprotoneg-04 3: extension_data is a sequence of length prefixed names', **vec(1, 2 ** 16 - 1, S('TlsNextProtocolNameFactory')))
entry('TlsExtensionNextProtocolNegotiationServer', 'draft-agl-tls-nextprotoneg-04 3 (the 2 byte extension length is the list prefix)',
      [{'u': 2, 'name': 'extension_type'}, S('TlsNextProtocolNameList')])
entry('TlsTokenBindingProtocolVersion', 'RFC 8472 2 TB_ProtocolVersion { uint8 major; uint8 minor; }', [{'u': 1}, {'u': 1}])
T['TlsTokenBindingParamaterVector'] = dict(ref='RFC 8472 2 TokenBindingKeyParameters key_parameters_list<1..2^8-1>', **vec(1, 2 ** 8 - 1, {'u': 1}))
entry('TlsExtensionTokenBinding', 'RFC 8472 2 TokenBindingParameters', ext([S('TlsTokenBindingProtocolVersion'), S('TlsTokenBindingParamaterVector')]))
T['TlsPskKeyExchangeModeVector'] = dict(ref='RFC 8446 4.2.9 PskKeyExchangeMode ke_modes<1..255>', **vec(1, 255, {'u': 1}))
entry('TlsExtensionPskKeyExchangeModes', 'RFC 8446 4.2.9', ext([S('TlsPskKeyExchangeModeVector')]))
entry('TlsExtensionRecordSizeLimit', 'RFC 8449 4 uint16 RecordSizeLimit', ext([{'u': 2}]))
T['CtExtensions'] = dict(ref='RFC 6962 3.2 opaque CtExtensions<0..2^16-1>', **vec(0, 2 ** 16 - 1, {'raw': 1}))
T['CtSignature'] = dict(ref='RFC 5246 4.7 digitally-signed: opaque signature<0..2^16-1>', **vec(0, 2 ** 16 - 1, {'raw': 1}))
entry('SignedCertificateTimestamp', 'RFC 6962 3.2/3.3 opaque SerializedSCT<1..2^16-1> holding SignedCertificateTimestamp', [
    {'lp': 2, 'body': [{'u': 1, 'name': 'sct_version'}, {'raw': 32, 'name': 'log_id'}, {'ts': 8, 'ms': True}, S('CtExtensions'),
                       {'u': 2, 'name': 'hash_and_signature'}, S('CtSignature')]}])
T['SignedCertificateTimestampList'] = dict(ref='RFC 6962 3.3 SerializedSCT sct_list<1..2^16-1>', **vec(1, 2 ** 16 - 1, S('SignedCertificateTimestamp')))
entry('TlsExtensionSignedCertificateTimestampServer', 'RFC 6962 3.3.1', ext([S('SignedCertificateTimestampList')]))
T['TlsCertificateCompressionAlgorithmVector'] = dict(ref='RFC 8879 3 CertificateCompressionAlgorithm algorithms<2..2^8-2>', **vec(2, 2 ** 8 - 2, {'u': 2}))
entry('TlsExtensionCompressCertificate', 'RFC 8879 3', ext([S('TlsCertificateCompressionAlgorithmVector')]))
entry('TlsExtensionPadding', 'RFC 7685 3: extension_data is zero bytes', ext([{'raw': '*'}]))

REG = collections.OrderedDict()
REG['TlsContentType'] = dict(ref='RFC 5246 6.2.1 / RFC 6520', values={'CHANGE_CIPHER_SPEC': 20, 'ALERT': 21, 'HANDSHAKE': 22, 'APPLICATION_DATA': 23, 'HEARTBEAT': 24})
REG['TlsAlertLevel'] = dict(ref='RFC 5246 7.2', values={'WARNING': 1, 'FATAL': 2})
REG['TlsAlertDescription'] = dict(ref='RFC 8446 6 / IANA TLS Alert Registry', values={
    'CLOSE_NOTIFY': 0, 'UNEXPECTED_MESSAGE': 10, 'BAD_RECORD_MAC': 20, 'RECORD_OVERFLOW': 22, 'HANDSHAKE_FAILURE': 40,
    'BAD_CERTIFICATE': 42, 'UNSUPPORTED_CERTIFICATE': 43, 'CERTIFICATE_REVOKED': 44, 'CERTIFICATE_EXPIRED': 45,
    'CERTIFICATE_UNKNOWN': 46, 'ILLEGAL_PARAMETER': 47, 'UNKNOWN_CA': 48, 'ACCESS_DENIED': 49, 'DECODE_ERROR': 50,
    'DECRYPT_ERROR': 51, 'PROTOCOL_VERSION': 70, 'INSUFFICIENT_SECURITY': 71, 'INTERNAL_ERROR': 80, 'INAPPROPRIATE_FALLBACK': 86,
    'USER_CANCELED': 90, 'MISSING_EXTENSION': 109, 'UNSUPPORTED_EXTENSION': 110, 'CERTIFICATE_UNOBTAINABLE': 111,
    'UNRECOGNIZED_NAME': 112, 'BAD_CERTIFICATE_STATUS_RESPONSE': 113, 'BAD_CERTIFICATE_HASH_VALUE': 114,
    'UNKNOWN_PSK_IDENTITY': 115, 'CERTIFICATE_REQUIRED': 116, 'NO_APPLICATION_PROTOCOL': 120,
    # RFC 2246 / 4346 / 5246 7.2 (reserved in later versions, still sent by older peers)
    'DECRYPTION_FAILED': 21, 'DECOMPRESSION_FAILURE': 30, 'NO_CERTIFICATE': 41, 'EXPORT_RESTRICTION': 60, 'NO_RENEGOTIATION': 100})
REG['TlsChangeCipherSpecType'] = dict(ref='RFC 5246 7.1', values={'CHANGE_CIPHER_SPEC': 1})
REG['TlsHandshakeType'] = dict(ref='IANA TLS HandshakeType registry', values={
    'HELLO_REQUEST': 0, 'CLIENT_HELLO': 1, 'SERVER_HELLO': 2, 'HELLO_VERIFY_REQUEST': 3, 'NEW_SESSION_TICKET': 4,
    'HELLO_RETRY_REQUEST': 6, 'CERTIFICATE': 11, 'SERVER_KEY_EXCHANGE': 12, 'CERTIFICATE_REQUEST': 13, 'SERVER_HELLO_DONE': 14,
    'CERTIFICATE_VERIFY': 15, 'CLIENT_KEY_EXCHANGE': 16, 'FINISHED': 20, 'CLIENT_CERTIFICATE_URL': 21, 'CERTIFICATE_STATUS': 22,
    'SUPPLEMENTAL_DATA': 23, 'KEY_UPDATE': 24, 'COMPRESSED_CERTIFICATE': 25, 'EKT_KEY': 26, 'MESSAGE_HASH': 254})
REG['TlsCertificateStatusType'] = dict(ref='RFC 6066 8', values={'OCSP': 1})
REG['TlsServerNameType'] = dict(ref='RFC 6066 3', values={'HOST_NAME': 0})
REG['TlsECCurveType'] = dict(ref='RFC 4492 5.4', values={'EXPLICIT_PRIME': 1, 'EXPLICIT_CHAR2': 2, 'NAMED_CURVE': 3})
REG['TlsClientCertificateType'] = dict(ref='IANA TLS ClientCertificateType Identifiers', values={
    'RSA_SIGN': 1, 'DSS_SIGN': 2, 'RSA_FIXED_DH': 3, 'DSS_FIXED_DH': 4, 'ECDSA_SIGN': 64, 'RSA_FIXED_ECDH': 65,
    'ECDSA_FIXED_ECDH': 66, 'GOST_SIGN256': 67, 'GOST_SIGN512': 68})
REG['SslMessageType'] = dict(ref='SSL 2.0 5.5-5.7 protocol message codes', values={
    'ERROR': 0, 'CLIENT_HELLO': 1, 'CLIENT_MASTER_KEY': 2, 'CLIENT_FINISHED': 3, 'SERVER_HELLO': 4, 'SERVER_VERIFY': 5,
    'SERVER_FINISHED': 6, 'REQUEST_CERTIFICATE': 7, 'CLIENT_CERTIFICATE': 8})
REG['SslErrorType'] = dict(ref='SSL 2.0 5.7.1 error message codes (SSL_PE_*)', values={
    'NO_CIPHER_ERROR': 1, 'NO_CERTIFICATE_ERROR': 2, 'BAD_CERTIFICATE_ERROR': 4, 'UNSUPPORTED_CERTIFICATE_TYPE_ERROR': 6})
REG['SslCertificateType'] = dict(ref='SSL 2.0 5.6 SSL_CT_X509_CERTIFICATE', values={'X509_CERTIFICATE': 1})
REG['SslAuthenticationType'] = dict(ref='SSL 2.0 SSL_AT_MD5_WITH_RSA_ENCRYPTION', values={'MD5_WITH_RSA_ENCRYPTION': 1})
REG['CtVersion'] = dict(ref='RFC 6962 3.2', values={'V1': 0})
REG['TlsExtensionType'] = dict(ref='IANA TLS ExtensionType Values (only the numbers the package keys its registries on)', values={
    'SERVER_NAME': 0, 'STATUS_REQUEST': 5, 'SUPPORTED_GROUPS': 10, 'EC_POINT_FORMATS': 11, 'SIGNATURE_ALGORITHMS': 13,
    'APPLICATION_LAYER_PROTOCOL_NEGOTIATION': 16, 'SIGNED_CERTIFICATE_TIMESTAMP': 18, 'PADDING': 21, 'ENCRYPT_THEN_MAC': 22,
    'EXTENDED_MASTER_SECRET': 23, 'TOKEN_BINDING': 24, 'COMPRESS_CERTIFICATE': 27, 'RECORD_SIZE_LIMIT': 28,
    'DELEGATED_CREDENTIALS': 34, 'SESSION_TICKET': 35, 'SUPPORTED_VERSIONS': 43, 'PSK_KEY_EXCHANGE_MODES': 45,
    'SIGNATURE_ALGORITHMS_CERT': 50, 'KEY_SHARE': 51, 'RENEGOTIATION_INFO': 65281, 'NEXT_PROTOCOL_NEGOTIATION': 13172,
    'CHANNEL_ID': 30032})
REG['TlsCipherSuiteExtension'] = dict(ref='RFC 5746 3.3 / RFC 7507 2 (signalling cipher suite values)', values={
    'EMPTY_RENEGOTIATION_INFO_SCSV': 0x00ff, 'FALLBACK_SCSV': 0x5600})

NOT_WIRE = {
    'TlsSubprotocolMessageBase': 'abstract', 'SubprotocolParser': 'dispatcher', 'TlsHandshakeMessageVariant': 'variant registry',
    'TlsExtensionVariantClient': 'variant registry', 'TlsExtensionVariantServer': 'variant registry',
    'SslRecord': 'compared by the dedicated SSL 2.0 header rule (C06.R4)',
}

if __name__ == '__main__':
    out = collections.OrderedDict(structures=T, registries=REG, not_wire=NOT_WIRE)
    with open(os.path.join(os.path.dirname(os.path.abspath(__file__)), 'tls.json'), 'w') as f:
        json.dump(out, f, indent=1)
    print('tls.json: %d structures, %d registries' % (len(T), len(REG)))
