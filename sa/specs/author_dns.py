"""Authoring helper for sa/specs/dns.json.  RFC 1035 3.3, RFC 2536, RFC 3110, RFC 4034 2-5, RFC 5933, RFC 6605, RFC 8080."""
import collections
import json
import os

T = collections.OrderedDict()


def S(name):
    return {'struct': name}


def entry(name, ref, layout):
    T[name] = collections.OrderedDict(ref=ref, layout=layout)


rsa = [{'u': 1, 'name': 'exponent length'}, {'opt': [{'u': 2, 'name': 'exponent length (3 octet form)'}]}, {'mpint': '*', 'name': 'exponent'}, {'mpint': '*', 'name': 'modulus'}]
ecdsa = [{'mpint': '*', 'name': 'x'}, {'mpint': '*', 'name': 'y'}]
eddsa = [{'raw': '*', 'name': 'public key'}]
dsa = [{'u': 1, 'name': 'T'}, {'mpint': 20, 'name': 'Q'}, {'mpint': '*', 'name': 'P'}, {'mpint': '*', 'name': 'G'}, {'mpint': '*', 'name': 'Y'}]
entry('DnsRecordDnskey', 'RFC 4034 2.1 DNSKEY RDATA: flags(2) protocol(1) algorithm(1) public key; key formats RFC 3110 (RSA), RFC 6605 (ECDSA), RFC 5933 (GOST), RFC 8080 (EdDSA), RFC 2536 (DSA)',
      [{'flags': 2, 'name': 'flags', 'attr': 'flags'}, {'u': 1, 'name': 'protocol', 'attr': 'protocol'}, {'u': 1, 'name': 'algorithm', 'attr': 'algorithm'},
       {'alt': [rsa, [{'alt': [ecdsa, [{'alt': [eddsa, dsa]}]]}]]}])
entry('DnsRecordDs', 'RFC 4034 5.1 DS RDATA: key tag(2) algorithm(1) digest type(1) digest', [{'u': 2, 'attr': 'key_tag'}, {'u': 1, 'attr': 'algorithm'}, {'u': 1, 'attr': 'digest_type'}, {'raw': '*', 'attr': 'digest'}])
entry('DnsRrTypePrivate', 'RFC 6895 3.1 private use RR TYPE 0xff00-0xfffe: 16 bit', [{'u': 2}])
entry('DnsNameUncompressed', 'RFC 1035 3.1 domain name: sequence of labels (length octet + octets) ended by the zero length root label',
      [{'repeat': [{'lp': 1, 'body': [{'text': 'idna'}]}]}, {'u': 1, 'name': 'root label'}])
entry('DnsRecordRrsig', 'RFC 4034 3.1 RRSIG RDATA: type covered(2) algorithm(1) labels(1) original TTL(4) expiration(4) inception(4) key tag(2) signer name, signature',
      [{'u': 2, 'name': 'type covered', 'attr': 'type_covered'}, {'u': 1, 'attr': 'algorithm'}, {'u': 1, 'attr': 'labels'}, {'u': 4, 'attr': 'original_ttl'},
       {'ts': 4, 'attr': 'signature_expiration'}, {'ts': 4, 'attr': 'signature_inception'}, {'u': 2, 'attr': 'key_tag'},
       dict(S('DnsNameUncompressed'), attr='signers_name'), {'raw': '*', 'attr': 'signature'}])
entry('DnsRecordMx', 'RFC 1035 3.3.9 MX RDATA: preference(2) exchange', [{'u': 2, 'attr': 'priority'}, dict(S('DnsNameUncompressed'), attr='exchange')])
entry('DnsRecordTxt', 'RFC 1035 3.3.14 TXT RDATA: one or more <character-string>s (length octet + octets)', [{'repeat': [{'lp': 1, 'body': [{'text': 'ascii'}]}]}])

REG = collections.OrderedDict()
REG['DnsSecFlag'] = dict(ref='RFC 4034 2.1.1 / RFC 5011: SEP bit 15, REVOKE bit 8, Zone Key bit 7 (bit 0 is the most significant)',
                         values={'SECURE_ENTRY_POINT': 0x0001, 'REVOKE': 0x0080, 'DNS_ZONE_KEY': 0x0100})
REG['DnsSecProtocol'] = dict(ref='RFC 4034 2.1.2: protocol field MUST be 3', values={'V3': 3})
REG['DnsSecAlgorithm'] = dict(ref='IANA DNSSEC algorithm numbers', values={
    'RSAMD5': 1, 'DH': 2, 'DSA': 3, 'RSASHA1': 5, 'DSA-NSEC3-SHA1': 6, 'RSASHA1-NSEC3-SHA1': 7, 'RSASHA256': 8, 'RSASHA512': 10,
    'ECCGOST': 12, 'ECDSAP256SHA256': 13, 'ECDSAP384SHA384': 14, 'ED25519': 15, 'ED448': 16})
REG['DnsSecDigestType'] = dict(ref='IANA DS digest types', values={'SHA1': 1, 'SHA_256': 2, 'GOST_R3411_94': 3, 'SHA_384': 4})

KEYS = collections.OrderedDict([
    ('ECDSAP256SHA256', {'ref': 'RFC 6605 4: P-256, Q = x | y, 2 x 32 octets', 'curves': ['PRIME256V1', 'SECP256R1'], 'coordinate_bytes': 32}),
    ('ECDSAP384SHA384', {'ref': 'RFC 6605 4: P-384, 2 x 48 octets', 'curves': ['SECP384R1'], 'coordinate_bytes': 48}),
    ('ECCGOST', {'ref': 'RFC 5933 2.1: 64 octets (x, y little endian 32 each), GOST R 34.10-2001 CryptoPro-A parameters', 'curves': ['GC256B', 'GC256A'], 'coordinate_bytes': 32}),
    ('ED25519', {'ref': 'RFC 8080 3: 32 octet public key', 'key_bytes': 32}),
    ('ED448', {'ref': 'RFC 8080 3: 57 octet public key', 'key_bytes': 57}),
])

if __name__ == '__main__':
    out = collections.OrderedDict(structures=T, registries=REG, keys=KEYS, not_wire={})
    with open(os.path.join(os.path.dirname(os.path.abspath(__file__)), 'dns.json'), 'w') as f:
        json.dump(out, f, indent=1)
    print('dns.json: %d structures' % len(T))
