"""Wire layouts derived from interpreter traces (E5, second half).

``parse_layout(result)`` / ``compose_layout(result)`` turn the structured trace of a ``_parse`` /
``compose`` into a tree of layout elements ``El`` in wire order:

    u(w, order)   flags(w, order, enum, shift)   raw(size)   lp(w, order, body)   text(enc)
    strz(enc)     nested(cls)   array(item, count)   narray(classes)   mpint(len)   sshmpint
    ts(w, ms)     alt(cond, a, b)   repeat(body)   tryalt(a, b)   t:<text primitive>

Parse side elements carry ``key`` (the parser key) and size expressions over earlier keys; compose side
elements carry ``val`` (the expression written).  Wire order on the compose side is read off the *returned*
byte value (a concatenation of composers / nested composes), not off emission order.
"""
from __future__ import annotations

from .model import ClassInfo, EnumMember, ExtRef, ParamsValue
from .trace import Alt, Continue, Effect, Inline, Loop, New, Op, Opaque, Raise, Return, Try
from .values import (BytesV, ClassV, ComposerV, DictV, FieldV, InputV, ListV, ObjV, ParserV, SelfV, Sym, Unknown,
                     is_const, show)


class El:
    def __init__(self, kind, **kw):
        self.kind = kind
        self.w = kw.pop('w', None)
        self.order = kw.pop('order', None)
        self.body = kw.pop('body', None)
        self.a = kw.pop('a', None)
        self.b = kw.pop('b', None)
        self.cls = kw.pop('cls', None)
        self.size = kw.pop('size', None)
        self.key = kw.pop('key', None)
        self.val = kw.pop('val', None)
        self.conv = kw.pop('conv', None)
        self.op = kw.pop('op', None)
        self.extra = kw

    def sig(self):
        """Canonical, value-free signature used for structural comparison."""
        k = self.kind
        if k == 'u':
            return 'u%s%s' % (self.w, order_tag(self.order, self.w))
        if k == 'flags':
            return 'flags%s%s<<%s' % (self.w, order_tag(self.order, self.w), self.extra.get('shift', 0))
        if k == 'raw':
            return 'raw'
        if k == 'lp':
            return 'lp%s%s[%s]' % (self.w, order_tag(self.order, self.w), ' '.join(e.sig() for e in self.body))
        if k == 'text':
            return 'text(%s)' % (self.extra.get('enc'),)
        if k == 'strz':
            return 'strz(%s)' % (self.extra.get('enc'),)
        if k == 'nested':
            return 'nested(%s)' % cls_name(self.cls)
        if k == 'array':
            return 'array(%s)' % self.body[0].sig()
        if k == 'narray':
            return 'narray(%s)' % cls_name(self.cls)
        if k == 'mpint':
            return 'mpint'
        if k == 'sshmpint':
            return 'sshmpint'
        if k == 'ts':
            return 'ts%s%s' % (self.w, 'ms' if self.extra.get('ms') else '')
        if k == 'alt':
            return 'alt{%s | %s}' % (' '.join(e.sig() for e in self.a), ' '.join(e.sig() for e in self.b))
        if k == 'repeat':
            return 'repeat{%s}' % ' '.join(e.sig() for e in self.body)
        if k == 'tryalt':
            return 'try{%s | %s}' % (' '.join(e.sig() for e in self.a), ' '.join(e.sig() for e in self.b))
        if k == 'const':
            return 'const%s' % (self.w,)
        return k

    def __repr__(self):
        s = self.sig()
        if self.key is not None:
            s += '@' + str(self.key)
        if self.val is not None:
            s += '=' + show(self.val)
        return s


def order_tag(order, w):
    if w == 1 or order is None:
        return ''
    name = getattr(order, 'name', None)
    if name in ('NETWORK', 'BIG_ENDIAN'):
        return 'be'
    if name == 'LITTLE_ENDIAN':
        return 'le'
    if name == 'NATIVE':
        return 'native'
    return '?order'


def cls_name(c):
    if isinstance(c, ClassV):
        c = c.cls
    if isinstance(c, ClassInfo):
        return c.name
    if isinstance(c, (list, tuple)):
        return '|'.join(cls_name(x) for x in c)
    return show(c)


# ---------------------------------------------------------------------------------------
# structuring the trace: fold early exits so that sequencing is explicit

def structure(block, inlined=False):
    """-> list of items: Op/New/Effect/Return/Opaque nodes, ('alt', cond, A, B, node), ('loop', node, B),
    ('try', node, body, [handler blocks], orelse).  ``inlined``: the block is the body of a helper call, where ``return``
    means "carry on after the call": ``if ok: return`` followed by a raise is the check ``if not ok: raise``."""
    out = []
    i = 0
    n = len(block)
    while i < n:
        nd = block[i]
        if isinstance(nd, Inline):
            out.extend(strip_inner_returns(structure(nd.body, True)))
        elif isinstance(nd, Alt):
            rest = block[i + 1:]
            ta = terminates(nd.then)
            tb = terminates(nd.orelse)
            if inlined and ta == 'return' and not tb and terminates(rest) == 'raise':
                out.append(('check', Sym('not', nd.cond), structure(nd.orelse + rest, True), nd))
                out.extend(strip_inner_returns(structure(nd.then, True)))
                return out
            if inlined and tb == 'return' and not ta and terminates(rest) == 'raise':
                out.append(('check', nd.cond, structure(nd.then + rest, True), nd))
                out.extend(strip_inner_returns(structure(nd.orelse, True)))
                return out
            if ta and not tb:
                if ta == 'raise':
                    out.append(('check', nd.cond, structure(nd.then), nd))
                    out.extend(structure(nd.orelse))
                else:
                    out.append(('alt', nd.cond, structure(nd.then), structure(nd.orelse + rest), nd))
                    return out
            elif tb and not ta:
                if tb == 'raise':
                    out.append(('check', Sym('not', nd.cond), structure(nd.orelse), nd))
                    out.extend(structure(nd.then))
                else:
                    out.append(('alt', nd.cond, structure(nd.then + rest), structure(nd.orelse), nd))
                    return out
            else:
                out.append(('alt', nd.cond, structure(nd.then), structure(nd.orelse), nd))
                if ta and tb:
                    return out
        elif isinstance(nd, Loop):
            out.append(('loop', nd, structure(nd.body)))
        elif isinstance(nd, Try):
            out.append(('try', nd, structure(nd.body), [structure(h) for _, _, h in nd.handlers],
                        structure(nd.orelse), [terminates(h) for _, _, h in nd.handlers]))
        elif isinstance(nd, Continue):
            return out          # nothing of this pass follows
        else:
            out.append(nd)
            if isinstance(nd, (Return, Raise)):
                return out
        i += 1
    return out


def strip_inner_returns(items):
    return [x for x in items if not isinstance(x, Return)]


def terminates(block):
    """'return' / 'raise' if every path through the block ends there, else None."""
    for nd in block:
        if isinstance(nd, Return):
            return 'return'
        if isinstance(nd, Continue):
            return 'continue'
        if isinstance(nd, Raise):
            return 'raise'
        if isinstance(nd, Alt):
            a, b = terminates(nd.then), terminates(nd.orelse)
            if a and b:
                return 'return' if 'return' in (a, b) else ('continue' if 'continue' in (a, b) else 'raise')
        if isinstance(nd, Inline):
            t = terminates(nd.body)
            if t == 'raise':
                return 'raise'
        if isinstance(nd, Try):
            parts = [terminates(nd.body + nd.orelse)] + [terminates(h) for _, _, h in nd.handlers]
            if all(parts):
                return 'return' if 'return' in parts else ('continue' if 'continue' in parts else 'raise')
    return None


# ---------------------------------------------------------------------------------------
# primitive -> element tables

def _u(op, w, **kw):
    return El('u', w=w, order=op.target.order if op.target is not None else None, op=op, **kw)


def parse_op_element(op):
    a = op.args
    p = op.prim
    t = op.target
    key = op.key if op.key is not None else a.get('name')
    kind = t.kind if t is not None else None
    if t is None:
        return El('nested', cls=a.get('cls'), op=op, size=a.get('parsable'), exact=(p == 'parse_exact_size'))
    order = t.order
    if kind == 'binary':
        if p == 'parse_numeric':
            return El('u', w=a['size'], order=order, key=key, conv=a.get('converter'), op=op)
        if p == 'parse_numeric_array':
            item = El('u', w=a['item_size'], order=order, conv=a.get('converter'), op=op)
            return El('array', body=[item], size=a['item_num'], key=key, op=op, unit='count')
        if p == 'parse_numeric_flags':
            return El('flags', w=a['size'], order=order, key=key, conv=a.get('flags_class'), op=op,
                      shift=a.get('shift_left', 0))
        if p == 'parse_timestamp':
            return El('ts', w=a.get('item_size'), order=order, key=key, op=op, ms=a.get('milliseconds'))
        if p == 'parse_mpint':
            return El('mpint', size=a['mpint_length'], key=key, op=op, order=order)
        if p == 'parse_ssh_mpint':
            return El('sshmpint', key=key, op=op, order=order)
        if p == 'parse_bytes':
            return El('lp', w=a['size'], order=order, key=key, op=op, conv=a.get('converter'),
                      body=[El('raw', size='all', key=key, op=op)])
        if p == 'parse_raw':
            return El('raw', size=a['size'], key=key, conv=a.get('converter'), op=op)
        if p == 'parse_string':
            return El('lp', w=a['item_size'], order=order, key=key, op=op, conv=a.get('converter'),
                      body=[El('text', enc=a.get('encoding'), key=key, op=op)])
        if p == 'parse_string_null_terminated':
            return El('strz', enc=a.get('encoding'), key=key, op=op, conv=a.get('converter'))
        if p == 'parse_parsable':
            inner = El('nested', cls=a['parsable_class'], key=key, op=op)
            if a.get('item_size') is None:
                return inner
            return El('lp', w=a['item_size'], order=order, key=key, op=op, body=[inner])
        if p == 'parse_parsable_array':
            return El('narray', cls=[a['item_class']], size=a['items_size'], key=key, op=op,
                      fallback=a.get('fallback_class'), derived=False)
        if p == 'parse_parsable_derived_array':
            return El('narray', cls=[a['item_base_class']], size=a['items_size'], key=key, op=op,
                      fallback=a.get('fallback_class'), derived=True)
        if p == 'parse_parsable_list':
            return El('nlist', cls=[a['item_class']], key=key, op=op, fallback=a.get('fallback_class'),
                      separator=a.get('separator_class'))
        if p == 'parse_variant':
            return El('variant', val=a.get('variant'), key=key, op=op)
    if p == 'parse_parsable':
        inner = El('nested', cls=a['parsable_class'], key=key, op=op)
        if a.get('item_size') is None:
            return inner
        return El('lp', w=a['item_size'], order=order, key=key, op=op, body=[inner])
    # text primitives: keep name and the static arguments
    return El('t:' + p[len('parse_'):], key=key if 'name' in a else None, op=op,
              targs={k: v for k, v in a.items() if k != 'name'})


def compose_op_element(op, interp=None):
    a = op.args
    p = op.prim
    t = op.target
    order = t.order
    if t.kind == 'binary':
        if p == 'compose_numeric':
            return El('u', w=a['size'], order=order, val=a['value'], op=op)
        if p == 'compose_numeric_enum_coded':
            return El('u', w=code_size_of(a['value'], interp), order=order, val=a['value'], op=op, enum_coded=True)
        if p == 'compose_numeric_array':
            return El('array', body=[El('u', w=a['item_size'], order=order, op=op)], val=a['values'], op=op,
                      unit='count')
        if p == 'compose_numeric_array_enum_coded':
            return El('array', body=[El('u', w=code_size_of(a['values'], interp, elem=True), order=order, op=op)],
                      val=a['values'], op=op, unit='count', enum_coded=True)
        if p == 'compose_numeric_flags':
            return El('flags', w=a['item_size'], order=order, val=a['values'], op=op, shift=a.get('shift_right', 0))
        if p == 'compose_timestamp':
            return El('ts', w=a.get('item_size'), order=order, val=a['value'], op=op, ms=a.get('milliseconds'))
        if p == 'compose_mpint':
            return El('mpint', size=a['length'], val=a['value'], op=op, order=order)
        if p == 'compose_ssh_mpint':
            return El('sshmpint', val=a['value'], op=op, order=order)
        if p == 'compose_bytes':
            return El('lp', w=a['item_size'], order=order, val=a['value'], op=op,
                      body=[El('raw', size='all', val=a['value'], op=op)])
        if p == 'compose_raw':
            v = a['value']
            if isinstance(v, bytes):
                return El('const', w=len(v), val=v, op=op)
            return El('raw', val=v, op=op)
        if p == 'compose_string':
            return El('lp', w=a['item_size'], order=order, val=a['value'], op=op,
                      body=[El('text', enc=a.get('encoding'), val=a['value'], op=op)])
        if p == 'compose_string_enum_coded':
            return El('lp', w=a['item_size'], order=order, val=a['value'], op=op,
                      body=[El('text', enc='ascii', val=a['value'], op=op)])
        if p == 'compose_string_null_terminated':
            return El('strz', enc=a.get('encoding'), val=a['value'], op=op)
        if p == 'compose_parsable':
            inner = El('nested', cls=type_of(a['value']), val=a['value'], op=op)
            if a.get('item_size') is None:
                return inner
            return El('lp', w=a['item_size'], order=order, val=a['value'], op=op, body=[inner])
        if p == 'compose_parsable_array':
            fb = None
            tv = a['values']
            holder = tv.root_cls if isinstance(tv, SelfV) and tv.path == ('_items',) else type_of(tv)
            if isinstance(holder, ClassInfo) and interp is not None and holder.resolve('get_param') is not None:
                prm = interp.const_call(holder, 'get_param')
                if isinstance(prm, ObjV):
                    fb = prm.attrs.get('fallback_class')
            return El('narray', cls=[elem_type_of(a['values'], interp)], val=a['values'], op=op,
                      separator=a.get('separator'), fallback=fb if isinstance(fb, ClassV) else None)
    if p == 'compose_parsable' and t.kind == 'text':
        return El('nested', cls=type_of(a['value']), val=a['value'], op=op)
    return El('t:' + p[len('compose_'):], val=a.get('value', a.get('values')), op=op,
              targs={k: v for k, v in a.items() if k not in ('value', 'values')})


def type_of(v):
    if isinstance(v, Sym) and v.op == 'typed':
        return v.args[1].cls
    if isinstance(v, SelfV):
        return v.typ
    if isinstance(v, ObjV):
        return v.cls
    if isinstance(v, EnumMember):
        return v.cls
    return None


def elem_type_of(v, interp):
    """Item class of a vector-typed value, through its ``get_param().item_class``."""
    t = type_of(v)
    if isinstance(v, SelfV) and v.path == ('_items',) and v.root_cls is not None:
        t = v.root_cls
    if not isinstance(t, ClassInfo) or interp is None or t.resolve('get_param') is None:
        return None
    prm = interp.const_call(t, 'get_param')
    if isinstance(prm, ObjV):
        ic = prm.attrs.get('item_class')
        if isinstance(ic, ClassV):
            return ic.cls
    return None


def _enum_code_size(t, interp):
    pc = t.enum_params_class
    if isinstance(pc, ClassInfo) and pc.resolve('get_code_size'):
        r = interp.const_call(pc, 'get_code_size')
        return r if isinstance(r, int) else None
    return None


def code_size_of(v, interp, elem=False):
    """Width written by compose_numeric(_array)_enum_coded: ``value.value.get_code_size()``."""
    t = type_of(v)
    if isinstance(v, EnumMember):
        t = v.cls
    if isinstance(v, Sym) and v.op == 'elem' and interp is not None and not elem:
        # an item of a vector: width through the vector's item factory
        return code_size_of(v.args[0], interp, elem=True)
    if isinstance(t, tuple) and t and t[0] == 'iter' and elem:
        t = t[1]
        elem = False
    if isinstance(t, tuple) and t and t[0] == 'union':
        sizes = set()
        for m in t[1]:
            sizes.add(code_size_of(ObjV(m), interp) if m.enum_members is None else _enum_code_size(m, interp))
        return sizes.pop() if len(sizes) == 1 else None
    if not isinstance(t, ClassInfo) or interp is None:
        return None
    if elem:
        # a vector of enum members: item_class is a *Factory; width through its fallback / byte num
        if t.resolve('get_param') is not None:
            prm = interp.const_call(t, 'get_param')
            if isinstance(prm, ObjV):
                ic = prm.attrs.get('item_class')
                if isinstance(ic, ClassV) and isinstance(ic.cls, ClassInfo) and ic.cls.resolve('get_byte_num'):
                    r = interp.const_call(ic.cls, 'get_byte_num')
                    return r if isinstance(r, int) else None
        return None
    if t.enum_members is not None:
        pc = t.enum_params_class
        if isinstance(pc, ClassInfo) and pc.resolve('get_code_size'):
            r = interp.const_call(pc, 'get_code_size')
            return r if isinstance(r, int) else None
        # class style enum with params values
        for name in t.enum_members:
            val = interp.enum_value(EnumMember(t, name))
            if isinstance(val, ObjV) and val.cls.resolve('get_code_size'):
                r = interp.const_call(val.cls, 'get_code_size')
                return r if isinstance(r, int) else None
            break
    return None


# ---------------------------------------------------------------------------------------
# projecting a structured trace on one parser / composer

def same_vals(x, y):
    """two composer elements write the same value (or are parser elements, which carry none)"""
    vx, vy = getattr(x, 'val', None), getattr(y, 'val', None)
    if vx is None and vy is None:
        return True
    try:
        from .values import show as _show
        return _show(vx) == _show(vy)
    except Exception:      # pylint: disable=broad-except
        return False


def project(items, target, make, interp=None):
    out = []
    for it in items:
        if isinstance(it, Op):
            if it.target is target:
                el = make(it, interp) if make is compose_op_element else make(it)
                if el is not None and el.kind == 'array' and not el.extra.get('enum_coded') and isinstance(el.val, ListV) and el.val.complete and \
                        0 < len(el.val.items) <= 8 and not any(isinstance(x, Sym) and x.op in ('splat', 'repeat', 'comp', 'star') for x in el.val.items):
                    # compose_numeric_array([a, b], w) with the items spelled out is compose_numeric(a, w); compose_numeric(b, w)
                    u = el.body[0]
                    out.extend(El('u', w=u.w, order=u.order, val=x, op=it) for x in el.val.items)
                    continue
                if el is not None and not (el.kind == 'const' and el.w == 0):      # writing b'' writes nothing
                    out.append(el)
        elif isinstance(it, tuple):
            tag = it[0]
            if tag == 'alt':
                a = project(it[2], target, make, interp)
                b = project(it[3], target, make, interp)
                if a or b:
                    if a and b and not (sigs(a) == sigs(b) and same_keys(a, b)):
                        # ``A B C | A C`` (a loop over a list one branch extended): the elements both arms start / end with are written
                        # on either path - they stand outside the conditional, which keeps what differs
                        pre = 0
                        while pre < min(len(a), len(b)) and sigs(a[pre:pre + 1]) == sigs(b[pre:pre + 1]) and same_keys(a[pre:pre + 1], b[pre:pre + 1]) and \
                                same_vals(a[pre], b[pre]):
                            pre += 1
                        suf = 0
                        while suf < min(len(a), len(b)) - pre and sigs(a[len(a) - 1 - suf:len(a) - suf]) == sigs(b[len(b) - 1 - suf:len(b) - suf]) and \
                                same_keys(a[len(a) - 1 - suf:len(a) - suf], b[len(b) - 1 - suf:len(b) - suf]) and same_vals(a[len(a) - 1 - suf], b[len(b) - 1 - suf]):
                            suf += 1
                        if pre or suf:
                            out.extend(a[:pre])
                            ma, mb = a[pre:len(a) - suf], b[pre:len(b) - suf]
                            tail = a[len(a) - suf:] if suf else []
                            if ma or mb:
                                if mb and not ma:
                                    cond = it[1]
                                    neg = cond.args[0] if isinstance(cond, Sym) and cond.op == 'not' else Sym('not', cond)
                                    out.append(El('alt', a=mb, b=[], val=neg, op=it[4]))
                                else:
                                    out.append(El('alt', a=ma, b=mb, val=it[1], op=it[4]))
                            out.extend(tail)
                            continue
                    if sigs(a) == sigs(b) and same_keys(a, b):
                        out.extend(a)
                    elif b and not a:
                        # ``if absent: return`` in front of the write: the same element as ``if present: write``
                        cond = it[1]
                        neg = cond.args[0] if isinstance(cond, Sym) and cond.op == 'not' else Sym('not', cond)
                        out.append(El('alt', a=b, b=[], val=neg, op=it[4]))
                    else:
                        out.append(El('alt', a=a, b=b, val=it[1], op=it[4]))
            elif tag == 'check':
                pass
            elif tag == 'loop':
                body = project(it[2], target, make, interp)
                if body and getattr(it[1], 'search', False) and len(body) == 1 and body[0].kind == 'alt' and not body[0].b:
                    out.extend(body[0].a)
                elif body:
                    out.append(El('repeat', body=body, val=it[1].iterable, op=it[1], how=it[1].how))
            elif tag == 'try':
                body = project(it[2], target, make, interp) + project(it[4], target, make, interp)
                alts = []
                for hb, term in zip(it[3], it[5]):
                    if term == 'raise':
                        continue
                    alts.append(project(hb, target, make, interp))
                alts = [x for x in alts if x or body]
                if alts and any(sigs(x) != sigs(body) for x in alts):
                    out.append(El('tryalt', a=body, b=alts[0], op=it[1]))
                else:
                    out.extend(body)
    return out


def sigs(els):
    return [e.sig() for e in els]


def same_keys(a, b):
    return [e.key for e in a] == [e.key for e in b]


# ---------------------------------------------------------------------------------------
# parse side assembly

class ParseLayout:
    def __init__(self):
        self.elements = []
        self.chain = []         # parsers consuming the input, in order
        self.sub = {}           # FieldV key op -> (parser, elements)
        self.aux = []           # other parsers (lookahead, detached)
        self.notes = []
        self.direct = []        # nested parse calls not through a parser
        self.returns = []


def input_relation(p):
    """How parser ``p`` relates to the function input: ('root',) | ('cont', lo) | ('field', FieldV) |
    ('peek', parser) | ('other',)."""
    over = strip_bytes(p.over)
    if isinstance(over, InputV):
        return ('root',)
    if isinstance(over, Sym) and over.op == 'slice' and isinstance(strip_bytes(over.args[0]), InputV):
        lo, hi = over.args[1], over.args[2]
        if hi is None:
            return ('cont', lo)
        if lo is None or lo == 0:
            return ('prefix', hi)
        return ('window', lo, hi)
    if isinstance(over, FieldV):
        return ('field', over)
    if isinstance(over, Sym) and over.op == 'unparsed' and isinstance(over.args[0], ParserV):
        return ('peek', over.args[0])
    return ('other',)


def strip_bytes(v):
    while isinstance(v, Sym) and v.op in ('bytes', 'bytearray') and len(v.args) == 1:
        v = v.args[0]
    return v


def parse_layout(result, interp=None):
    items = structure(result.block)
    lay = ParseLayout()
    lay.items = items
    per = {}
    for p in result.parsers:
        per[p] = project(items, p, parse_op_element)
    # attach sub parsers to the field they parse
    subs = {}
    for p in result.parsers:
        rel = input_relation(p)
        p.rel = rel
        if rel[0] == 'field':
            subs.setdefault((rel[1].parser, rel[1].key), []).append(p)

    def splice(els):
        for e in els:
            if e.kind == 'lp' and e.op is not None and (e.op.target, e.key) in subs and e.body and e.body[0].kind == 'raw':
                body = []
                for sp in subs[(e.op.target, e.key)]:
                    body.extend(splice(per[sp]))
                e.body = body
                e.extra['sub'] = True
            elif e.kind == 'raw' and e.op is not None and (e.op.target, e.key) in subs:
                body = []
                for sp in subs[(e.op.target, e.key)]:
                    body.extend(splice(per[sp]))
                e.extra['subbody'] = body
            if e.kind in ('alt', 'tryalt'):
                splice(e.a)
                splice(e.b)
            elif e.kind == 'repeat':
                splice(e.body)
        return els

    for p in result.parsers:
        rel = p.rel
        if rel[0] in ('root', 'cont', 'prefix', 'window'):
            lay.chain.append(p)
        elif rel[0] == 'field':
            pass
        else:
            lay.aux.append(p)
    for p in lay.chain:
        lay.elements.extend(splice(per[p]))
    lay.per = per
    # raw fields that the parser rejects unless they are empty
    empties = set()
    for it in flatten_checks(items):
        cond = it[1]
        if isinstance(cond, FieldV):
            empties.add((id(cond.parser), cond.key))
        elif isinstance(cond, Sym) and cond.op == 'len' and isinstance(cond.args[0], FieldV):
            empties.add((id(cond.args[0].parser), cond.args[0].key))
    for p in result.parsers:
        for e in _all_elements(per[p]):
            if e.kind == 'raw' and e.op is not None and (id(e.op.target), e.key) in empties:
                e.extra['must_be_empty'] = True
    if not result.parsers and not any(isinstance(x, Op) and x.target is None for x in flatten_items(items)):
        # no parser at all: the input itself is the value (opaque payload)
        if _mentions_input(result.value):
            lay.elements.append(El('raw', size='rest', key=None))
    # nested parse calls on the input without a parser (variants, exact-size delegations)
    direct = []
    for it in flatten_items(items):
        if isinstance(it, Op) and it.target is None:
            direct.append(it)
    lay.direct = direct
    if not lay.chain and direct:
        lay.elements.extend(project(items, None, parse_op_element))
    return lay


def _mentions_input(v, depth=0):
    if depth > 6:
        return False
    if isinstance(v, InputV):
        return True
    if isinstance(v, tuple):
        return any(_mentions_input(x, depth + 1) for x in v)
    if isinstance(v, ObjV):
        return any(_mentions_input(x, depth + 1) for x in (v.ctor_args or {}).values())
    if isinstance(v, Sym):
        return any(_mentions_input(x, depth + 1) for x in v.args)
    return False


def _all_elements(els):
    for e in els:
        yield e
        if e.kind in ('alt', 'tryalt'):
            for x in _all_elements(e.a):
                yield x
            for x in _all_elements(e.b):
                yield x
        elif e.kind in ('repeat', 'lp') and e.body:
            for x in _all_elements(e.body):
                yield x


def flatten_checks(items):
    for it in items:
        if isinstance(it, tuple):
            if it[0] == 'check':
                yield it
            elif it[0] == 'alt':
                for x in flatten_checks(it[2]):
                    yield x
                for x in flatten_checks(it[3]):
                    yield x
            elif it[0] == 'loop':
                for x in flatten_checks(it[2]):
                    yield x
            elif it[0] == 'try':
                for x in flatten_checks(it[2]):
                    yield x


def flatten_items(items):
    for it in items:
        if isinstance(it, tuple):
            tag = it[0]
            if tag in ('alt',):
                for x in flatten_items(it[2]):
                    yield x
                for x in flatten_items(it[3]):
                    yield x
            elif tag == 'check':
                for x in flatten_items(it[2]):
                    yield x
            elif tag == 'loop':
                for x in flatten_items(it[2]):
                    yield x
            elif tag == 'try':
                for x in flatten_items(it[2]):
                    yield x
                for hb in it[3]:
                    for x in flatten_items(hb):
                        yield x
                for x in flatten_items(it[4]):
                    yield x
        else:
            yield it


# ---------------------------------------------------------------------------------------
# compose side assembly: wire order from the returned byte value

class ComposeLayout:
    def __init__(self):
        self.elements = []
        self.notes = []
        self.unplaced = []


def _all_descendants(e):
    out = []
    for attr in ('body', 'a', 'b'):
        for ch in (getattr(e, attr, None) or []):
            out.append(ch)
            out.extend(_all_descendants(ch))
    return out


def compose_layout(result, interp=None):
    items = structure(result.block)
    lay = ComposeLayout()
    lay.items = items
    per = {}
    for c in result.composers:
        per[c] = project(items, c, compose_op_element, interp)
    lay.per = per
    used = set()

    def from_value(v):
        if isinstance(v, BytesV):
            out = []
            for part in v.parts:
                out.extend(from_part(part))
            return out
        if isinstance(v, bytes):
            return [El('const', w=len(v), val=v)] if v else []
        if isinstance(v, Sym) and v.op == 'phi':
            alts = [from_value(x) for x in v.args]
            if all(sigs(x) == sigs(alts[0]) for x in alts[1:]):
                return alts[0]
            if len(alts) == 2:
                # phi(A + S, B + S) is phi(A, B) + S (and likewise for a common head): an early ``return body`` against
                # ``return prefix + body`` is the optional prefix followed by the body
                a, b = alts
                tail = []
                while a and b and a[-1].sig() == b[-1].sig():
                    tail.insert(0, a[-1])
                    a, b = a[:-1], b[:-1]
                head = []
                while a and b and a[0].sig() == b[0].sig():
                    head.append(a[0])
                    a, b = a[1:], b[1:]
                if b and not a:
                    a, b = b, a         # the empty alternative second, as for an ``if present: write`` statement
                if len(a) == 1 and a[0].kind == 'alt' and not a[0].b and not b:
                    mid = [a[0]]        # optional(optional(X)) is optional(X)
                else:
                    mid = [El('alt', a=a, b=b, val=None)] if (a or b) else []
                return head + mid + tail
            return [El('alt', a=alts[0], b=[El('alt', a=alts[1], b=sum(alts[2:], []), val=None)], val=None)]
        if isinstance(v, ComposerV):
            return from_part(('composer', v, len(v.ops)))
        if isinstance(v, Sym) and v.op in ('bytes', 'bytearray') and len(v.args) == 1:
            return from_value(v.args[0])
        if isinstance(v, Sym) and v.op == 'slice':
            lay.notes.append('sliced byte value %s' % show(v))
            inner = from_value(v.args[0])
            return [El('sliced', body=inner, val=v)]
        if isinstance(v, Sym) and v.op == 'call' and isinstance(v.args[0], Sym) and v.args[0].op == 'attr' \
                and v.args[0].args[1] == 'compose' and len(v.args) == 1:
            recv = v.args[0].args[0]
            return [El('nested', cls=type_of(recv), val=recv)]
        if isinstance(v, (SelfV, Sym, FieldV)):
            return [El('raw', val=v)]
        if v is None:
            return []
        lay.notes.append('unrecognised byte value %s' % show(v))
        return [El('unknown', val=v)]

    def from_part(part):
        tag = part[0]
        if tag == 'composer':
            c, n = part[1], part[2]
            used.add(c)
            if n != len(c.ops):
                lay.notes.append('composer %r snapshot at %d of %d ops' % (c, n, len(c.ops)))
                if n == 0:
                    return []
            return list(per.get(c, []))
        if tag == 'raw':
            return from_value(part[1])
        if tag == 'nested':
            return [El('nested', cls=type_of(part[1]), val=part[1])]
        if tag == 'repeat':
            body = []
            for p in part[2]:
                body.extend(from_part(p))
            return [El('repeat', body=body, val=part[1].iterable, op=part[1], how=part[1].how)]
        lay.notes.append('unknown part %r' % (part,))
        return [El('unknown', val=part)]

    # bytes built by another composer and then written with compose_bytes / compose_raw: the elements of that composer
    def expand(els, depth=0):
        out = []
        for e in els:
            if depth < 6 and e.kind == 'raw' and isinstance(e.val, (BytesV, ComposerV)):
                inner = expand(from_value(e.val), depth + 1)
                for x in inner:
                    # written by the outer composer's raw op: counts as that composer's output for its length fields
                    for y in [x] + _all_descendants(x):
                        y.extra.setdefault('via_ops', []).append(e.op)
                out.extend(inner)
                continue
            if e.kind in ('lp', 'repeat', 'sliced') and e.body:
                e.body = expand(e.body, depth + 1)
            elif e.kind in ('alt', 'tryalt'):
                e.a, e.b = expand(e.a, depth + 1), expand(e.b, depth + 1)
            out.append(e)
        return out
    for c in list(per):
        per[c] = expand(per[c])
    lay.elements = from_value(result.value)
    lay.unplaced = [c for c in result.composers if c not in used and c.ops]
    return lay


def dump_elements(els, indent=0):
    out = []
    pad = '  ' * indent
    for e in els:
        if e.kind in ('alt', 'tryalt'):
            out.append('%s%s %s:' % (pad, e.kind, show(e.val) if e.val is not None else ''))
            out.extend(dump_elements(e.a, indent + 1))
            out.append('%selse:' % pad)
            out.extend(dump_elements(e.b, indent + 1))
        elif e.kind == 'repeat':
            out.append('%srepeat over %s:' % (pad, show(e.val)))
            out.extend(dump_elements(e.body, indent + 1))
        elif e.kind == 'lp' and not (len(e.body) == 1 and e.body[0].kind in ('raw', 'text', 'nested')):
            out.append('%slp%s%s @%s:' % (pad, e.w, order_tag(e.order, e.w), e.key))
            out.extend(dump_elements(e.body, indent + 1))
        else:
            s = pad + e.sig()
            if e.key is not None:
                s += ' @' + str(e.key)
            if e.size is not None and e.size != 'all':
                s += ' size=' + show(e.size)
            if e.val is not None:
                s += ' = ' + show(e.val)
            out.append(s)
    return out
